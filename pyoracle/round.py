#!/usr/bin/env python3
"""Offline checker over a float event log (C03 / C04).

Each line:  <f32|f64> <bits in hex> <decimal text>
claims that <decimal text> and the float with these bits denote "the same
value under correct rounding": the float is the representable value nearest to
the exact rational the text denotes (ties to even; overflow to infinity when
the rounded value exceeds the largest finite float).

Only integer / rational arithmetic is used (fractions.Fraction); no float
library is trusted.  Prints a summary line; exit 0 if all lines hold, 1 with
the offending lines otherwise.
"""
import sys
from fractions import Fraction

FMT = {"f32": (24, 127, 8), "f64": (53, 1023, 11)}
# stand-ins for magnitudes beyond 10^400 / below 10^-400 (round to infinity / zero in f32 and f64)
HUGE = Fraction(10) ** 400
TINY = Fraction(1, 10 ** 400)


def parse_decimal(text):
    t = text.strip()
    mant, exp = t, 0
    for sep in ("E", "e"):
        if sep in t:
            mant, e = t.split(sep, 1)
            exp = int(e)
            break
    m = Fraction(mant)
    if m != 0:
        # decimal order of magnitude of the mantissa, +-1; beyond +-400 every binary format
        # here overflows / underflows and the exact power of ten is not needed (and with an
        # exponent like 1E2147483647 could not be computed)
        order = len(str(abs(m.numerator))) - len(str(m.denominator))
        if order + exp > 400:
            return HUGE if m > 0 else -HUGE
        if order + exp < -400:
            return TINY if m > 0 else -TINY
    else:
        return Fraction(0)
    return m * (Fraction(10) ** exp)


def nearest_bits(q, kind):
    """bits of the float nearest to the rational q (ties to even)."""
    p, bias, ebits = FMT[kind]
    sign = 0
    if q < 0:
        sign, q = 1, -q
    total = p - 1 + ebits
    if q == 0:
        return sign << total
    emin = 1 - bias
    emax = bias
    # find e with 2^e <= q < 2^(e+1)
    n, d = q.numerator, q.denominator
    e = n.bit_length() - d.bit_length()
    if Fraction(2) ** e > q:
        e -= 1
    if Fraction(2) ** (e + 1) <= q:
        e += 1
    e = max(e, emin)
    # q = m * 2^(e-(p-1)), m rational; round m to an integer
    scale = Fraction(2) ** (e - (p - 1))
    m = q / scale
    mi = m.numerator // m.denominator
    rem = m - mi
    if rem > Fraction(1, 2) or (rem == Fraction(1, 2) and mi % 2 == 1):
        mi += 1
    if mi >= 2 ** p:
        mi //= 2
        e += 1
    if e > emax:
        return (sign << total) | (((1 << ebits) - 1) << (p - 1))  # infinity
    if mi < 2 ** (p - 1):
        # subnormal (e == emin)
        return (sign << total) | mi
    return (sign << total) | ((e + bias) << (p - 1)) | (mi - 2 ** (p - 1))


def main():
    bad = []
    n = 0
    for path in sys.argv[1:]:
        for line in open(path, errors="replace"):
            parts = line.rstrip("\n").split(" ", 2)
            if len(parts) != 3 or parts[0] not in FMT:
                continue
            kind, hexbits, text = parts
            bits = int(hexbits, 16)
            n += 1
            try:
                q = parse_decimal(text)
            except Exception as ex:  # noqa
                bad.append((line.strip(), "text is not a decimal number: %s" % ex))
                continue
            want = nearest_bits(q, kind)
            p, bias, ebits = FMT[kind]
            total = p - 1 + ebits
            # -0 and +0: the sign of a zero literal is carried by its text
            if q == 0:
                want = (1 << total) if text.strip().startswith("-") else 0
            if want != bits:
                bad.append((line.strip(), "nearest is %x" % want))
    print("round.py: %d float lines checked, %d wrong" % (n, len(bad)))
    for b in bad[:10]:
        print("  WRONG", b[0], "->", b[1])
    return 1 if bad else 0


if __name__ == "__main__":
    sys.exit(main())
