//! libFuzzer as a workload generator for the C05 / C07 / C12 monitors on the compact
//! interface (compiled through the real macro).  A violation aborts the process, which
//! libFuzzer records as a crash artifact.
#![no_main]
use libfuzzer_sys::fuzz_target;

fuzz_target!(|data: &[u8]| {
    let iface = gfix_mini::IFACES[0];
    if let Some(v) = mon::fuzzapi::fuzz_one(iface, data) {
        eprintln!("MONITOR-VIOLATION {}", v);
        std::process::abort();
    }
});
