//! Monitor runner: `runner --prop C05 --tier quick --seed 1 --out result.json`

#[global_allocator]
static ALLOC: mon::alloc::CountingAlloc = mon::alloc::CountingAlloc;

use mon::props::{self, Ctx};

fn main() {
    let args: Vec<String> = std::env::args().collect();
    let get = |k: &str, d: &str| -> String {
        args.iter().position(|a| a == k).and_then(|i| args.get(i + 1)).cloned().unwrap_or(d.to_string())
    };
    let prop = get("--prop", "");
    let ctx = Ctx {
        prop: prop.clone(),
        ifaces: gall::ifaces(),
        thorough: get("--tier", "quick") == "thorough",
        seed: get("--seed", "1").parse().expect("seed"),
        threads: get("--threads", "16").parse().expect("threads"),
        out_path: get("--out", "/dev/null"),
        scale_pct: get("--scale", "100").parse().expect("scale"),
        replay: args.iter().position(|a| a == "--replay").and_then(|i| args.get(i + 1)).cloned(),
        tiny: args.iter().any(|a| a == "--tiny"),
        shard: args.iter().position(|a| a == "--shard").map(|i| (args[i + 1].parse().expect("shard"), get("--of", "1").parse().expect("of"))),
    };
    mon::drive::install_panic_hook();
    if args.iter().any(|a| a == "--exec") {
        exec_mode(&ctx, &args);
        return;
    }
    let t0 = std::time::Instant::now();
    let res = match prop.as_str() {
        "C01" => props::c01::run(&ctx),
        "C02" => props::c02::run(&ctx),
        "C03" => props::c03::run(&ctx),
        #[cfg(feature = "zoo")]
        "C04" => props::c04::run(&ctx),
        "C05" => props::c05::run(&ctx),
        "C06" => props::c06::run(&ctx),
        "C07" => props::c07::run(&ctx),
        "C08" => props::c08::run(&ctx),
        "C09" => props::c09::run(&ctx),
        "C10" => props::c10::run(&ctx),
        "C11" => props::c11::run(&ctx),
        "C12" => props::c12::run(&ctx),
        "C13" => props::c13::run(&ctx),
        other => {
            eprintln!("unknown property {}", other);
            std::process::exit(2);
        }
    };
    let mut j = res.to_json();
    if let mon::out::J::Obj(v) = &mut j {
        v.push(("wall_s".into(), mon::out::J::Num(t0.elapsed().as_secs_f64())));
        v.push(("interfaces".into(), mon::out::J::Int(ctx.ifaces.len() as i64)));
    }
    std::fs::write(&ctx.out_path, j.to_string()).expect("write result");
    eprintln!(
        "{}: {} evaluations, {} distinct, {} violations, inconclusive={:?}, {:.1}s",
        prop,
        res.evaluations,
        res.distinct,
        res.violation_count,
        res.inconclusive,
        t0.elapsed().as_secs_f64()
    );
}

fn unhex(h: &str) -> Vec<u8> {
    (0..h.len() / 2).map(|i| u8::from_str_radix(&h[2 * i..2 * i + 2], 16).expect("hex")).collect()
}

/// Replay: execute one recorded case against the real library and print the event log.
///   --exec --iface NAME --api run|process|parse --hex H1[,H2..] [--writer rec|rec:CAP|heapless:CAP|std]
///          [--n N] [--chunks a,b,c] [--pend SEED] [--fault K] [--start A:B]
fn exec_mode(ctx: &Ctx, args: &[String]) {
    let get = |k: &str, d: &str| -> String {
        args.iter().position(|a| a == k).and_then(|i| args.get(i + 1)).cloned().unwrap_or(d.to_string())
    };
    let iface = ctx.iface(&get("--iface", "mini"));
    let inputs: Vec<Vec<u8>> = get("--hex", "").split(',').map(unhex).collect();
    let refs: Vec<&[u8]> = inputs.iter().map(|v| &v[..]).collect();
    let pend: u64 = get("--pend", "0").parse().unwrap_or(0);
    println!("interface {} declarations:", iface.name);
    for (i, d) in iface.decls.iter().enumerate() {
        println!("  h{} {:?} {:?} -> {:?}{}", i, d.cmd, d.params, d.ret, if d.fails.is_some() { " (fails)" } else { "" });
    }
    match get("--api", "run").as_str() {
        "parse" => {
            let root = (iface.root)();
            let mut start = root;
            for m in get("--start", "").split(':').filter(|m| !m.is_empty() && *m != "root") {
                start = start.child(m).expect("start node");
            }
            for i in &refs {
                println!("parse(\"{}\") = {:?}", mon::ev::esc(i), mon::microscpi::parser::parse(root, start, i).map(|(rem, call)| (mon::ev::esc(rem), call.map(|c| (c.query, c.terminated, format!("{:?}", c.args))))));
            }
        }
        "process" => {
            let chunks: Vec<usize> = get("--chunks", "").split(',').filter(|c| !c.is_empty()).map(|c| if c == "-1" { usize::MAX } else { c.parse().unwrap() }).collect();
            let fault = args.iter().position(|a| a == "--fault").and_then(|i| args.get(i + 1)).and_then(|v| v.parse().ok());
            let n: usize = get("--n", "64").parse().unwrap();
            let stream: Vec<u8> = refs.concat();
            println!("process::<{}> stream \"{}\" chunks {:?} pend {} fault {:?}", n, mon::ev::esc(&stream), chunks, pend, fault);
            let out = (iface.process)(&mon::ProcSpec { stream: &stream, n, chunks: &chunks, pend_seed: pend, fault_at: fault });
            for e in &out.log {
                println!("  {}", e.show());
            }
            println!("panic: {:?}  stuck: {}  allocations in library calls: {}", out.panic, out.stuck, out.allocs);
        }
        _ => {
            let w = get("--writer", "rec");
            let wk = if w == "std" {
                mon::WriterKind::Std
            }
            else if let Some(c) = w.strip_prefix("heapless:") {
                mon::WriterKind::Heapless(c.parse().unwrap())
            }
            else if let Some(c) = w.strip_prefix("rec:") {
                mon::WriterKind::Rec(Some(c.parse().unwrap()))
            }
            else {
                mon::WriterKind::Rec(None)
            };
            println!("run x{} writer {:?} pend {}", refs.len(), wk, pend);
            let out = (iface.run)(&mon::RunSpec { inputs: &refs, writer: wk, pend_seed: pend });
            for e in &out.log {
                println!("  {}", e.show());
            }
            println!("panic: {:?}  stuck: {}  allocations in library calls: {}", out.panic, out.stuck, out.allocs);
        }
    }
}
