//! Monitor runner: `runner --prop C05 --tier quick --seed 1 --out result.json`

#[global_allocator]
static ALLOC: mon::alloc::CountingAlloc = mon::alloc::CountingAlloc;

use mon::props::{self, Ctx};

fn main() {
    let args: Vec<String> = std::env::args().collect();
    let get = |k: &str, d: &str| -> String {
        args.iter().position(|a| a == k).and_then(|i| args.get(i + 1)).cloned().unwrap_or(d.to_string())
    };
    let prop = get("--prop", "");
    let ctx = Ctx {
        prop: prop.clone(),
        ifaces: gall::ifaces(),
        thorough: get("--tier", "quick") == "thorough",
        seed: get("--seed", "1").parse().expect("seed"),
        threads: get("--threads", "16").parse().expect("threads"),
        out_path: get("--out", "/dev/null"),
        scale_pct: get("--scale", "100").parse().expect("scale"),
        replay: args.iter().position(|a| a == "--replay").and_then(|i| args.get(i + 1)).cloned(),
    };
    mon::drive::install_panic_hook();
    let t0 = std::time::Instant::now();
    let res = match prop.as_str() {
        "C01" => props::c01::run(&ctx),
        "C02" => props::c02::run(&ctx),
        "C03" => props::c03::run(&ctx),
        "C04" => props::c04::run(&ctx),
        "C05" => props::c05::run(&ctx),
        "C06" => props::c06::run(&ctx),
        "C07" => props::c07::run(&ctx),
        "C08" => props::c08::run(&ctx),
        "C09" => props::c09::run(&ctx),
        "C10" => props::c10::run(&ctx),
        "C11" => props::c11::run(&ctx),
        "C12" => props::c12::run(&ctx),
        "C13" => props::c13::run(&ctx),
        other => {
            eprintln!("unknown property {}", other);
            std::process::exit(2);
        }
    };
    let mut j = res.to_json();
    if let mon::out::J::Obj(v) = &mut j {
        v.push(("wall_s".into(), mon::out::J::Num(t0.elapsed().as_secs_f64())));
        v.push(("interfaces".into(), mon::out::J::Int(ctx.ifaces.len() as i64)));
    }
    std::fs::write(&ctx.out_path, j.to_string()).expect("write result");
    eprintln!(
        "{}: {} evaluations, {} distinct, {} violations, inconclusive={:?}, {:.1}s",
        prop,
        res.evaluations,
        res.distinct,
        res.violation_count,
        res.inconclusive,
        t0.elapsed().as_secs_f64()
    );
}
