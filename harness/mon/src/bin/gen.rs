//! Emits the generated crates under <out>/: `gfix` (fixed interfaces) and
//! `grand0..k` (random declaration sets), plus the list crate `gall`.

use mon::genr::{self, IfaceSpec};
use mon::prng::Rng;

fn main() {
    let args: Vec<String> = std::env::args().collect();
    let get = |k: &str, d: &str| -> String {
        args.iter().position(|a| a == k).and_then(|i| args.get(i + 1)).cloned().unwrap_or(d.to_string())
    };
    let out = std::path::PathBuf::from(get("--out", "g"));
    let seed: u64 = get("--seed", "1").parse().expect("seed");
    let tier = get("--tier", "quick");
    let repo = get("--repo", "/repo");
    let mon_path = get("--mon", "/verif/harness/mon");
    let (crates, per) = if tier == "thorough" { (12usize, 34usize) } else { (4usize, 14usize) };

    if let Some(i) = args.iter().position(|a| a == "--c14") {
        // C14: ambiguous sets + twins, nothing else
        let dir = std::path::PathBuf::from(&args[i + 1]);
        let want = if tier == "thorough" { 3000usize } else { 160usize };
        let mut pairs = genr::c14_fixed();
        let mut rng = Rng::new(seed ^ 0xC14);
        let mut corpus = Rng::new(0xC14_C14);
        let mut tries = 0;
        while pairs.len() < want && tries < want * 40 {
            tries += 1;
            // half committed-seed corpus, half VERIF_SEED batch
            let r = if pairs.len() % 2 == 0 { &mut corpus } else { &mut rng };
            if let Some(p) = genr::c14_random(r) {
                pairs.push(p);
            }
        }
        for p in &pairs {
            assert!(genr::is_ambiguous(&p.ambiguous).is_some(), "not ambiguous: {:?}", p.ambiguous);
            assert!(genr::is_ambiguous(&p.twin).is_none(), "twin collides: {:?}", p.twin);
        }
        genr::emit_c14(&dir, &repo, &pairs).expect("emit c14");
        println!("generated {} ambiguous/twin pairs", pairs.len());
        return;
    }

    // crates the driver found the macro under test to reject: left out of the table
    let exclude: Vec<String> = get("--exclude", "").split(',').filter(|x| !x.is_empty()).map(|x| x.to_string()).collect();
    let mut qdevs: Vec<IfaceSpec> = Vec::new();
    for q in [1usize, 2, 3, 4, 5, 8, 10, 16] {
        qdevs.push(genr::qdev(q));
    }
    // one crate per fixed interface family, so that a macro that rejects one does not take
    // the others with it
    let fixed_crates: Vec<(&str, Vec<IfaceSpec>)> =
        vec![("gfix_mini", vec![genr::mini()]), ("gfix_pzoo", vec![genr::pzoo()]), ("gfix_qdev", qdevs), ("gfix_big", { let mut v = vec![genr::big()]; v.extend(genr::singles()); v })];
    let mut names: Vec<String> = Vec::new();
    for (cname, specs) in &fixed_crates {
        for f in specs {
            let strs: Vec<&str> = f.decls.iter().map(|x| x.cmd.as_str()).collect();
            let m = mon::spec::Model::new(&strs, f.std_cmds, f.err_cmds);
            assert!(m.collision().is_none(), "fixed interface {} collides: {:?}", f.name, m.collision());
            assert!(f.decls.iter().all(|x| !genr::self_collides(&x.cmd)));
        }
        genr::emit_crate(&out.join(cname), cname, &mon_path, &repo, specs, false).expect("emit fixed crate");
        names.push(cname.to_string());
    }
    let _ = std::fs::remove_dir_all(out.join("gfix"));

    for c in 0..crates {
        let mut specs = Vec::new();
        for k in 0..per {
            // first half of every crate: committed-seed corpus; second half: VERIF_SEED batch
            let fresh = k >= per / 2;
            let s = if fresh { seed.wrapping_mul(1000003).wrapping_add((c * per + k) as u64) } else { 7_000_000 + (c * per + k) as u64 };
            let mut rng = Rng::new(s);
            let path_style = k % 3 == 2;
            let name = format!("r{}_{}{}", c, k, if fresh { "s" } else { "c" });
            specs.push(genr::random_iface(&name, &mut rng, path_style));
        }
        let cname = format!("grand{}", c);
        genr::emit_crate(&out.join(&cname), &cname, &mon_path, &repo, &specs, false).expect("emit grand");
        names.push(cname);
    }
    // gall: one table over all generated crates
    let dir = out.join("gall");
    std::fs::create_dir_all(dir.join("src")).unwrap();
    let mut toml = String::from("[package]\nname = \"gall\"\nversion = \"0.0.0\"\nedition = \"2021\"\n\n[features]\nstd = [\"mon/std\"]\n\n[dependencies]\n");
    toml.push_str(&format!("mon = {{ path = \"{}\" }}\n", mon_path));
    let mut lib = String::from("// generated\npub fn ifaces() -> Vec<&'static mon::drive::IfaceDesc> {\n    let mut v = Vec::new();\n");
    for n in names.iter().filter(|n| !exclude.contains(n)) {
        toml.push_str(&format!("{} = {{ path = \"../{}\" }}\n", n, n));
        lib.push_str(&format!("    v.extend_from_slice({}::IFACES);\n", n));
    }
    lib.push_str("    v\n}\n");
    genr::write_if_changed(&dir.join("Cargo.toml"), &toml).unwrap();
    genr::write_if_changed(&dir.join("src/lib.rs"), &lib).unwrap();
    // remove stale crates
    for e in std::fs::read_dir(&out).unwrap() {
        let e = e.unwrap();
        let n = e.file_name().to_string_lossy().to_string();
        if (n.starts_with("grand") || n.starts_with("gfix")) && !names.contains(&n) {
            let _ = std::fs::remove_dir_all(e.path());
        }
    }
    println!("generated {} crates, {} random interfaces per crate, seed {}, excluded {:?}", names.len(), per, seed, exclude);
}
