//! Recording implementations of the two I/O boundaries: `microscpi::Write`
//! (for `run`) and `microscpi::Adapter` (for `process`).

use crate::alloc::exempt;
use crate::ev::{push, Ev};
use crate::exec::suspend;
use microscpi::Error;

/// Pass-through writer: records every write and flush, optionally bounded
/// (all-or-nothing per call, like heapless), optionally suspending.
pub struct RecWriter {
    pub cap: Option<usize>,
    pub used: usize,
}

impl RecWriter {
    pub fn new(cap: Option<usize>) -> RecWriter {
        RecWriter { cap, used: 0 }
    }
    fn put(&mut self, b: &[u8]) -> Result<(), Error> {
        if let Some(cap) = self.cap {
            if self.used + b.len() > cap {
                return Err(Error::TooMuchData);
            }
        }
        self.used += b.len();
        push(Ev::Write(exempt(|| b.to_vec())));
        Ok(())
    }
}

impl microscpi::Write for RecWriter {
    async fn write_bytes(&mut self, bytes: &[u8]) -> Result<(), Error> {
        suspend().await;
        self.put(bytes)
    }
    async fn write_char(&mut self, c: char) -> Result<(), Error> {
        suspend().await;
        let mut buf = [0u8; 4];
        let s = c.encode_utf8(&mut buf);
        self.put(s.as_bytes())
    }
    async fn write_str(&mut self, s: &str) -> Result<(), Error> {
        suspend().await;
        self.put(s.as_bytes())
    }
    async fn write_fmt(&mut self, args: core::fmt::Arguments<'_>) -> Result<(), Error> {
        suspend().await;
        let s = exempt(|| std::fmt::format(args));
        let r = self.put(s.as_bytes());
        exempt(|| drop(s));
        r
    }
    async fn flush(&mut self) -> Result<(), Error> {
        suspend().await;
        push(Ev::Flush);
        Ok(())
    }
}

pub const TOKEN_EOS: u32 = 1;
pub const TOKEN_AFTER: u32 = 2;
pub const TOKEN_FAULT_BASE: u32 = 1000;
pub const KIND_READ: u8 = 0;
pub const KIND_WRITE: u8 = 1;
pub const KIND_FLUSH: u8 = 2;

/// Marker in panic messages raised by the harness itself (never by the library).
pub const HARNESS_ABORT: &str = "HARNESS-ABORT";

/// Scripted transport.
///
/// Serves `stream` in the read sizes given by `chunks` (each bounded by the
/// offered capacity; the remainder of a chunk is served by the next read; a
/// chunk of 0 is a zero-length read; `usize::MAX` means "as much as fits").
/// After the plan is exhausted everything that is left is served as fast as the
/// capacity allows.  After the last byte the next read returns the error token
/// `TOKEN_EOS`.  If `fault_at == Some(k)`, transport call number k (counting
/// reads, writes and flushes from 0) returns the unique token
/// `TOKEN_FAULT_BASE + k` instead of doing anything.
pub struct ScriptedAdapter<'a> {
    pub stream: &'a [u8],
    pub pos: usize,
    pub chunks: &'a [usize],
    pub chunk_idx: usize,
    pub chunk_left: Option<usize>,
    pub call_no: usize,
    pub fault_at: Option<usize>,
    pub errored: u32,
}

impl<'a> ScriptedAdapter<'a> {
    pub fn new(stream: &'a [u8], chunks: &'a [usize], fault_at: Option<usize>) -> Self {
        ScriptedAdapter { stream, pos: 0, chunks, chunk_idx: 0, chunk_left: None, call_no: 0, fault_at, errored: 0 }
    }

    fn gate(&mut self, kind: u8) -> Result<(), u32> {
        let call = self.call_no;
        self.call_no += 1;
        if self.errored > 0 {
            // The library called the transport again after an error.
            self.errored += 1;
            push(Ev::AErr { token: TOKEN_AFTER, call, kind });
            if self.errored > 40 {
                panic!("{}: transport called more than 40 times after it returned an error", HARNESS_ABORT);
            }
            return Err(TOKEN_AFTER);
        }
        if self.fault_at == Some(call) {
            self.errored = 1;
            let token = TOKEN_FAULT_BASE + call as u32;
            push(Ev::AErr { token, call, kind });
            return Err(token);
        }
        Ok(())
    }
}

impl microscpi::Adapter for ScriptedAdapter<'_> {
    type Error = u32;

    async fn read(&mut self, dst: &mut [u8]) -> Result<usize, u32> {
        suspend().await;
        self.gate(KIND_READ)?;
        if self.pos >= self.stream.len() {
            self.errored = 1;
            push(Ev::AErr { token: TOKEN_EOS, call: self.call_no - 1, kind: KIND_READ });
            return Err(TOKEN_EOS);
        }
        let want = match self.chunk_left.take() {
            Some(w) => w,
            None => {
                if self.chunk_idx < self.chunks.len() {
                    let w = self.chunks[self.chunk_idx];
                    self.chunk_idx += 1;
                    w
                }
                else {
                    usize::MAX
                }
            }
        };
        let n = want.min(dst.len()).min(self.stream.len() - self.pos);
        if want != usize::MAX && want > n && n > 0 && self.stream.len() - self.pos > n {
            // the chunk did not fit: its rest is served by the next read
            self.chunk_left = Some(want - n);
        }
        dst[..n].copy_from_slice(&self.stream[self.pos..self.pos + n]);
        self.pos += n;
        push(Ev::Read { cap: dst.len(), n });
        Ok(n)
    }

    async fn write(&mut self, src: &[u8]) -> Result<(), u32> {
        suspend().await;
        self.gate(KIND_WRITE)?;
        push(Ev::AWrite(exempt(|| src.to_vec())));
        Ok(())
    }

    async fn flush(&mut self) -> Result<(), u32> {
        suspend().await;
        self.gate(KIND_FLUSH)?;
        push(Ev::AFlush);
        Ok(())
    }
}
