//! Small deterministic PRNG (splitmix64 seeding + xorshift64*).  No crates.

#[derive(Clone, Debug)]
pub struct Rng(u64);

pub fn splitmix(x: u64) -> u64 {
    let mut z = x.wrapping_add(0x9E3779B97F4A7C15);
    z = (z ^ (z >> 30)).wrapping_mul(0xBF58476D1CE4E5B9);
    z = (z ^ (z >> 27)).wrapping_mul(0x94D049BB133111EB);
    z ^ (z >> 31)
}

impl Rng {
    pub fn new(seed: u64) -> Rng {
        let s = splitmix(seed ^ 0xA076_1D64_78BD_642F);
        Rng(if s == 0 { 0x1234_5678_9ABC_DEF1 } else { s })
    }
    /// Independent stream derived from this seed and a label.
    pub fn fork(seed: u64, label: u64) -> Rng {
        Rng::new(splitmix(seed).wrapping_add(splitmix(label.wrapping_mul(0x2545F4914F6CDD1D))))
    }
    pub fn next(&mut self) -> u64 {
        let mut x = self.0;
        x ^= x >> 12;
        x ^= x << 25;
        x ^= x >> 27;
        self.0 = x;
        x.wrapping_mul(0x2545F4914F6CDD1D)
    }
    /// Uniform in 0..n (n > 0).
    pub fn below(&mut self, n: usize) -> usize {
        debug_assert!(n > 0);
        ((self.next() >> 11) % (n as u64)) as usize
    }
    /// Uniform in lo..=hi.
    pub fn range(&mut self, lo: usize, hi: usize) -> usize {
        lo + self.below(hi - lo + 1)
    }
    pub fn chance(&mut self, num: usize, den: usize) -> bool {
        self.below(den) < num
    }
    pub fn pick<'a, T>(&mut self, xs: &'a [T]) -> &'a T {
        &xs[self.below(xs.len())]
    }
    pub fn byte(&mut self) -> u8 {
        (self.next() >> 32) as u8
    }
    pub fn shuffle<T>(&mut self, xs: &mut [T]) {
        for i in (1..xs.len()).rev() {
            let j = self.below(i + 1);
            xs.swap(i, j);
        }
    }
}

/// FNV-1a, used for "pure function of (declaration, arguments)" results and
/// for counting distinct cases.
pub fn fnv(bytes: &[u8]) -> u64 {
    let mut h: u64 = 0xcbf29ce484222325;
    for b in bytes {
        h ^= *b as u64;
        h = h.wrapping_mul(0x100000001b3);
    }
    h
}

pub fn fnv_add(h: u64, bytes: &[u8]) -> u64 {
    let mut h = h;
    for b in bytes {
        h ^= *b as u64;
        h = h.wrapping_mul(0x100000001b3);
    }
    h
}
