//! Declaration-set ("program") generator and Rust source emitter.
//!
//! Every interface the monitors drive is described as data (`IfaceSpec`) and
//! compiled through the real `#[microscpi::interface]` macro from /repo.

use crate::ev::{Fail, RetTy, Ty, ALL_TYS, QUERY_RET_TYS};
use crate::prng::Rng;
use crate::spec::{parse_decl, Model};

#[derive(Clone, Debug)]
pub struct DeclSpec {
    pub cmd: String,
    pub params: Vec<Ty>,
    pub ret: RetTy,
    pub is_async: bool,
    pub fails: Option<Fail>,
}

#[derive(Clone, Debug)]
pub struct IfaceSpec {
    pub name: String,
    pub decls: Vec<DeclSpec>,
    pub std_cmds: bool,
    pub err_cmds: bool,
    pub queue_cap: usize,
    /// instantiate `process` for every N in 1..=64 (compact interfaces only)
    pub full_n: bool,
}

pub fn d(cmd: &str, params: &[Ty], ret: RetTy) -> DeclSpec {
    DeclSpec { cmd: cmd.to_string(), params: params.to_vec(), ret, is_async: true, fails: None }
}

impl DeclSpec {
    pub fn sync(mut self) -> Self {
        self.is_async = false;
        self
    }
    pub fn failing(mut self, f: Fail) -> Self {
        self.fails = Some(f);
        self
    }
}

/// The compact fixed interface used for wide sweeps over N, capacities and
/// chunkings (C05, C07, C08, C10, C12, C13).  Mnemonics A, B, C exist at
/// several levels; Z exists nowhere.
pub fn mini() -> IfaceSpec {
    use RetTy as R;
    use Ty::*;
    IfaceSpec {
        name: "mini".into(),
        decls: vec![
            d("A", &[], R::Unit),
            d("A?", &[], R::U8).sync(),
            d("A:B", &[U8], R::Unit),
            d("A:B?", &[], R::Str),
            d("A:A", &[Str], R::Unit).sync(),
            d("B:A?", &[Bool], R::PairI32Bool),
            d("[B]:C", &[Blk], R::Unit),
            d("B:C?", &[], R::TripleU8StrF64),
            d("*RST", &[], R::Unit),
            d("*IDN?", &[], R::Str).sync(),
            d("S", &[Str, Blk], R::Unit),
            d("N", &[I16, F32], R::Unit),
            d("N?", &[U64, I8], R::I64),
            d("FAIL", &[], R::Unit).failing(Fail::Custom(123, "custom failure")),
            d("FAIL?", &[], R::U32).failing(Fail::Builtin(0)),
            d("A:B:C", &[], R::Unit),
            d("A:B:C?", &[F64], R::F64),
            d("C:[A]:B", &[], R::Unit).sync(),
        ],
        std_cmds: true,
        err_cmds: true,
        queue_cap: 4,
        full_n: true,
    }
}

/// A big interface: ~90 declarations over a 4-level tree (node ids and handler ids well beyond
/// 16 and 255), alternating sync / async handlers.
pub fn big() -> IfaceSpec {
    let l1 = ["ALPha", "BETa", "GAMma", "DELta"];
    let l2 = ["ONE", "TWO2", "THRee", "FOUR_x"];
    let l3 = ["Xa", "Yb", "Zc"];
    let mut decls = Vec::new();
    let mut k = 0usize;
    for a in l1 {
        for b in l2 {
            for c in l3 {
                let cmd = match k % 4 {
                    0 => format!("{}:{}:{}", a, b, c),
                    1 => format!("{}:{}:{}?", a, b, c),
                    2 => format!("{}:[{}]:{}:LEAF", a, b, c),
                    _ => format!("{}:{}:[{}]:TAIL?", a, b, c),
                };
                let query = cmd.ends_with('?');
                let mut dd = d(&cmd, if k % 5 == 0 { &[Ty::U8] } else { &[] }, if query { QUERY_RET_TYS[k % QUERY_RET_TYS.len()] } else { RetTy::Unit });
                dd.is_async = k % 2 == 0;
                decls.push(dd);
                k += 1;
            }
        }
    }
    for a in l1 {
        decls.push(d(a, &[], RetTy::Unit));
        decls.push(d(&format!("{}?", a), &[], RetTy::U32));
    }
    IfaceSpec { name: "big".into(), decls, std_cmds: true, err_cmds: true, queue_cap: 4, full_n: false }
}

/// Interfaces with exactly one declaration (with and without the standard commands).
pub fn singles() -> Vec<IfaceSpec> {
    let mut v = Vec::new();
    for (k, (cmd, std_cmds, err_cmds)) in [("ONLY:[ONE]?", false, false), ("SYSTem:ERRor:CLEar", true, true), ("SYSTem:VERSion:X?", false, true), ("*TST?", true, false), ("S", false, false)].iter().enumerate() {
        let query = cmd.ends_with('?');
        v.push(IfaceSpec { name: format!("single{}", k), decls: vec![d(cmd, &[], if query { RetTy::U8 } else { RetTy::Unit })], std_cmds: *std_cmds, err_cmds: *err_cmds, queue_cap: 2, full_n: false });
    }
    v
}

/// Parameter zoo: one command and one query per parameter type, mixed signatures.
pub fn pzoo() -> IfaceSpec {
    use RetTy as R;
    use Ty::*;
    let mut decls = Vec::new();
    for t in ALL_TYS {
        decls.push(d(&format!("P:{}", t.name().to_ascii_uppercase()), &[t], R::Unit));
    }
    decls.push(d("MIX:NONE", &[], R::Unit));
    decls.push(d("MIX:A", &[U8, Str, F64], R::Unit));
    decls.push(d("MIX:B", &[Bool, I64, Blk, F32], R::Unit).sync());
    decls.push(d("MIX:C?", &[I8, I8], R::I16));
    decls.push(d("MIX:TEN", &[U8, I8, U16, I16, U32, I32, U64, I64, F32, Bool], R::Unit));
    decls.push(d("MIX:TEN2", &[Str, Blk, Usize, Isize, F64, Bool, U8, Str, Blk, I16], R::Unit).sync());
    decls.push(d("MIX:PAIR", &[U16, U16], R::Unit));
    decls.push(d("MIX:BOOLs", &[Bool, Bool, Bool], R::Unit));
    IfaceSpec { name: "pzoo".into(), decls, std_cmds: false, err_cmds: false, queue_cap: 4, full_n: false }
}

/// Queue devices for C09: capacity Q, real StaticErrorQueue behind a recorder.
pub fn qdev(cap: usize) -> IfaceSpec {
    use RetTy as R;
    use Ty::*;
    IfaceSpec {
        name: format!("qdev{}", cap),
        decls: vec![
            d("OK", &[], R::Unit),
            d("VAL?", &[], R::U8),
            d("ARG", &[U8], R::Unit),
            d("CUST", &[], R::Unit).failing(Fail::Custom(77, "custom seventy-seven")),
            d("CUSTB?", &[], R::U8).failing(Fail::Custom(-299, "another custom")),
            d("HW", &[], R::Unit).failing(Fail::Builtin(2)),
            d("CUSTZ", &[], R::Unit).failing(Fail::Custom(0, "zero")),
            d("CUSTP", &[], R::Unit).failing(Fail::Custom(32767, "largest")),
            d("CUSTN", &[], R::Unit).failing(Fail::Custom(-32768, "smallest")),
            d("CUSTO", &[], R::Unit).failing(Fail::Custom(-350, "custom, not the overflow marker")),
        ],
        std_cmds: false,
        err_cmds: true,
        queue_cap: cap,
        full_n: false,
    }
}

const POOL: [&str; 56] = [
    "CH10", "CH", "ERRor_1",
    "VOLTAGE", "SYSTEM", "TRIGGER", "TEST", "SOURCE",
    "WAVeform", "ZERO", "JKl", "KELVin",
    "CONFiguration", "MULTiplyFloat", "CALibrationData1", "ABCDEFGHIJKLMNo",
    "A", "B", "C", "D", "AB", "BA", "VOLTage", "CURRent", "TeST", "MEAS1", "X_Y", "RANGe", "DC", "AC", "FREQuency",
    "SYSTem", "ERRor", "NEXT", "COUNt", "VERSion", "OUTPut", "STATe", "LEVel", "TRIGger", "SOURce", "CH1", "CH2", "aBc",
    "MoDe", "IMMediate", "Q9", "N_1x", "LIMit", "UPPer", "LOWer", "DATA", "VOLT", "CURR", "Te", "R2d2",
];

const COMMON: [&str; 8] = ["*RST", "*CLS", "*IDN?", "*TST?", "*OPC", "*OPC?", "*ESE", "*ESE?"];

pub fn spellable(m: &str) -> bool {
    let short: String = m.chars().filter(|c| !c.is_ascii_lowercase()).collect();
    !m.is_empty()
        && m.chars().all(|c| c.is_ascii_alphanumeric() || c == '_')
        && m.chars().next().unwrap().is_ascii_alphabetic()
        && !short.is_empty()
        && short.chars().next().unwrap().is_ascii_alphabetic()
}

/// Number of raw path expansions the macro performs vs distinct ones: a
/// declaration that collides with itself (e.g. `[A]:[A]:X`) is excluded.
pub fn self_collides(cmd: &str) -> bool {
    let dcl = parse_decl(cmd);
    let mut raw: usize = 1;
    for n in &dcl.nodes {
        let mut k = 1;
        if n.short != n.long {
            k += 1;
        }
        if n.optional {
            k += 1;
        }
        raw *= k;
    }
    raw != dcl.spellings().len()
}

fn rand_params(rng: &mut Rng) -> Vec<Ty> {
    let n = match rng.below(20) {
        0..=6 => 0,
        7..=12 => 1,
        13..=15 => 2,
        16 => 3,
        17 => 4,
        18 => rng.range(5, 9),
        _ => 10,
    };
    (0..n).map(|_| *rng.pick(&ALL_TYS)).collect()
}

fn rand_fail(rng: &mut Rng) -> Fail {
    if rng.chance(1, 2) {
        Fail::Builtin(rng.below(8) as u8)
    }
    else {
        *rng.pick(&[
            Fail::Custom(1, "one"),
            Fail::Custom(-999, "minus nine nine nine"),
            Fail::Custom(32767, "max"),
            Fail::Custom(-113, "custom with the number of undefined header"),
            Fail::Custom(0, "zero is not an error"),
            Fail::Custom(-32768, "minimum"),
            Fail::Custom(-350, "custom, not the overflow marker"),
        ])
    }
}

/// A random declaration set the macro accepts.  `path_style`: small vocabulary
/// and deep trees (the same mnemonic at several levels), few parameters.
pub fn random_iface(name: &str, rng: &mut Rng, path_style: bool) -> IfaceSpec {
    let std_cmds = rng.chance(1, 3);
    let err_cmds = rng.chance(1, 3);
    let vocab: Vec<&str> = if path_style {
        let mut v = vec!["A", "B", "C"];
        if rng.chance(1, 2) {
            v.push("Dd");
        }
        if rng.chance(1, 3) {
            v.push("AB");
        }
        v
    }
    else {
        let k = rng.range(3, 9);
        (0..k).map(|_| *rng.pick(&POOL)).collect()
    };
    let want = if path_style { rng.range(8, 16) } else { rng.range(5, 13) };
    let mut decls: Vec<DeclSpec> = Vec::new();
    let mut tries = 0;
    while decls.len() < want && tries < 400 {
        tries += 1;
        let cmd = if !decls.is_empty() && rng.chance(1, 6) {
            // command + query on one node
            let base = &rng.pick(&decls).cmd.clone();
            if base.ends_with('?') {
                base[..base.len() - 1].to_string()
            }
            else {
                format!("{}?", base)
            }
        }
        else if rng.chance(1, 10) {
            rng.pick(&COMMON).to_string()
        }
        else {
            let depth = if path_style { rng.range(1, 4) } else { *rng.pick(&[1, 1, 2, 2, 2, 3, 3, 4, 4, 5, 6]) };
            let mut parts = Vec::new();
            let mut any_required = false;
            for _ in 0..depth {
                let m = *rng.pick(&vocab);
                if rng.chance(1, 5) {
                    parts.push(format!("[{}]", m));
                }
                else {
                    any_required = true;
                    parts.push(m.to_string());
                }
            }
            if !any_required {
                continue;
            }
            let mut c = parts.join(":");
            if rng.chance(1, 2) {
                c.push('?');
            }
            c
        };
        if self_collides(&cmd) {
            continue;
        }
        let query = cmd.ends_with('?');
        let mut cand = decls.clone();
        let params = if path_style && rng.chance(2, 3) { vec![] } else { rand_params(rng) };
        let ret = if query {
            if rng.chance(1, 8) {
                RetTy::Unit
            }
            else {
                *rng.pick(&QUERY_RET_TYS)
            }
        }
        else {
            RetTy::Unit
        };
        cand.push(DeclSpec {
            cmd,
            params,
            ret,
            is_async: rng.chance(1, 2),
            fails: if rng.chance(1, 8) { Some(rand_fail(rng)) } else { None },
        });
        let strs: Vec<&str> = cand.iter().map(|x| x.cmd.as_str()).collect();
        if Model::new(&strs, std_cmds, err_cmds).collision().is_some() {
            continue;
        }
        decls = cand;
    }
    if !decls.iter().any(|x| x.fails.is_none()) {
        decls[0].fails = None;
    }
    IfaceSpec { name: name.to_string(), decls, std_cmds, err_cmds, queue_cap: *rng.pick(&[1, 2, 4, 10]), full_n: false }
}

// ---------------------------------------------------------------------------
// source emission
// ---------------------------------------------------------------------------

fn fail_src(f: &Option<Fail>) -> String {
    match f {
        None => "None".into(),
        Some(Fail::Builtin(i)) => format!("Some(Fail::Builtin({}))", i),
        Some(Fail::Custom(n, t)) => format!("Some(Fail::Custom({}, {:?}))", n, t),
    }
}

pub fn emit_module(s: &IfaceSpec) -> String {
    let mut o = String::new();
    o.push_str("// generated by mon::genr - do not edit\n");
    o.push_str("#![allow(unused_imports, dead_code, clippy::all)]\n");
    o.push_str("use mon::drive::{DeclDesc, IfaceDesc, NewDev};\nuse mon::ev::{self, Fail, RetTy, Ty};\n\n");
    if s.err_cmds {
        o.push_str(&format!("pub struct Dev {{ q: mon::devq::RecQueue<{}> }}\n", s.queue_cap));
        o.push_str("impl NewDev for Dev { fn new_dev() -> Self { Dev { q: Default::default() } } }\n");
        o.push_str("impl ::microscpi::ErrorCommands for Dev {\n    fn error_queue(&mut self) -> &mut impl ::microscpi::ErrorQueue { &mut self.q }\n}\n");
    }
    else {
        o.push_str("pub struct Dev;\nimpl NewDev for Dev { fn new_dev() -> Self { Dev } }\n");
        o.push_str("impl ::microscpi::ErrorHandler for Dev {\n    fn handle_error(&mut self, e: ::microscpi::Error) { ev::record_error(e) }\n}\n");
    }
    if s.std_cmds {
        o.push_str("impl ::microscpi::StandardCommands for Dev {}\n");
    }
    let attrs: Vec<&str> = [(s.std_cmds, "StandardCommands"), (s.err_cmds, "ErrorCommands")]
        .iter()
        .filter(|(b, _)| *b)
        .map(|(_, n)| *n)
        .collect();
    if attrs.is_empty() {
        o.push_str("\n#[::microscpi::interface]\n");
    }
    else {
        o.push_str(&format!("\n#[::microscpi::interface({})]\n", attrs.join(", ")));
    }
    o.push_str("impl Dev {\n");
    for (i, dcl) in s.decls.iter().enumerate() {
        // ordinary items between the handlers (an impl block is not only SCPI handlers)
        if i % 3 == 1 || (i == 0 && s.decls.len() % 2 == 0) {
            o.push_str(&format!("    pub const AUX_{}: usize = {};\n    pub fn helper_{}(&self) -> usize {{ Self::AUX_{} }}\n", i, i, i, i));
        }
        let params: Vec<String> = dcl.params.iter().enumerate().map(|(k, t)| format!("p{}: {}", k, t.rust())).collect();
        let refs: Vec<String> = (0..dcl.params.len()).map(|k| format!("&p{}", k)).collect();
        o.push_str(&format!("    #[scpi(cmd = {:?})]\n", dcl.cmd));
        o.push_str(&format!(
            "    pub {}fn h{}(&mut self{}{}) -> Result<{}, ::microscpi::Error> {{\n",
            if dcl.is_async { "async " } else { "" },
            i,
            if params.is_empty() { "" } else { ", " },
            params.join(", "),
            dcl.ret.rust()
        ));
        o.push_str(&format!("        let seed = ev::enter({}, &[{}]);\n", i, refs.join(", ")));
        if dcl.is_async {
            o.push_str("        mon::exec::suspend().await;\n");
        }
        o.push_str(&format!("        ev::finish::<{}>({}, seed, {})\n    }}\n", dcl.ret.rust(), i, fail_src(&dcl.fails)));
    }
    o.push_str("}\n\n");
    o.push_str("pub static DECLS: &[DeclDesc] = &[\n");
    for dcl in &s.decls {
        let tys: Vec<String> = dcl.params.iter().map(|t| format!("Ty::{}", t.name())).collect();
        o.push_str(&format!(
            "    DeclDesc {{ cmd: {:?}, params: &[{}], ret: RetTy::{}, is_async: {}, fails: {} }},\n",
            dcl.cmd,
            tys.join(", "),
            dcl.ret.name(),
            dcl.is_async,
            fail_src(&dcl.fails)
        ));
    }
    o.push_str("];\n\n");
    o.push_str(&format!(
        "pub static IFACE: IfaceDesc = IfaceDesc {{\n    name: {:?},\n    decls: DECLS,\n    std_cmds: {},\n    err_cmds: {},\n    queue_cap: {},\n    root: mon::drive::root_of::<Dev>,\n    run: mon::drive::drive_run::<Dev>,\n    process: mon::drive::{}::<Dev>,\n    ns: mon::drive::{},\n}};\n",
        s.name,
        s.std_cmds,
        s.err_cmds,
        s.queue_cap,
        if s.full_n { "drive_process_full" } else { "drive_process_small" },
        if s.full_n { "n_full" } else { "ns_small" },
    ));
    o
}

/// Writes a crate `name` with one module per interface and a table of them.
pub fn emit_crate(dir: &std::path::Path, name: &str, mon_path: &str, repo: &str, specs: &[IfaceSpec], with_std: bool) -> std::io::Result<()> {
    use std::fs;
    fs::create_dir_all(dir.join("src"))?;
    let mut lib = String::from("// generated by mon::genr - do not edit\n#![allow(non_snake_case)]\n");
    for s in specs {
        lib.push_str(&format!("pub mod i_{};\n", s.name));
        write_if_changed(&dir.join("src").join(format!("i_{}.rs", s.name)), &emit_module(s))?;
    }
    lib.push_str("\npub static IFACES: &[&mon::drive::IfaceDesc] = &[\n");
    for s in specs {
        lib.push_str(&format!("    &i_{}::IFACE,\n", s.name));
    }
    lib.push_str("];\n");
    write_if_changed(&dir.join("src/lib.rs"), &lib)?;
    let toml = format!(
        "[package]\nname = \"{name}\"\nversion = \"0.0.0\"\nedition = \"2021\"\n\n[features]\nstd = [\"mon/std\"]\n\n[dependencies]\nmon = {{ path = \"{mon_path}\" }}\nmicroscpi = {{ path = \"{repo}/microscpi\" }}\nheapless = \"0.8.0\"\n"
    );
    let _ = with_std;
    write_if_changed(&dir.join("Cargo.toml"), &toml)?;
    // remove stale modules
    let keep: std::collections::HashSet<String> = specs.iter().map(|s| format!("i_{}.rs", s.name)).collect();
    for e in fs::read_dir(dir.join("src"))? {
        let e = e?;
        let n = e.file_name().to_string_lossy().to_string();
        if n.starts_with("i_") && !keep.contains(&n) {
            fs::remove_file(e.path())?;
        }
    }
    Ok(())
}

pub fn write_if_changed(path: &std::path::Path, content: &str) -> std::io::Result<()> {
    if let Ok(old) = std::fs::read_to_string(path) {
        if old == content {
            return Ok(());
        }
    }
    std::fs::write(path, content)
}

// ---------------------------------------------------------------------------
// C14: ambiguous declaration sets and their collision-free twins
// ---------------------------------------------------------------------------

#[derive(Clone, Debug)]
pub struct C14Set {
    pub class: &'static str,
    pub decls: Vec<String>,
    pub std_cmds: bool,
    pub err_cmds: bool,
}

#[derive(Clone, Debug)]
pub struct C14Pair {
    pub ambiguous: C14Set,
    pub twin: C14Set,
}

fn set(class: &'static str, decls: &[&str], std_cmds: bool, err_cmds: bool) -> C14Set {
    C14Set { class, decls: decls.iter().map(|s| s.to_string()).collect(), std_cmds, err_cmds }
}

pub fn is_ambiguous(s: &C14Set) -> Option<(usize, usize, Vec<String>)> {
    let strs: Vec<&str> = s.decls.iter().map(|x| x.as_str()).collect();
    Model::new(&strs, s.std_cmds, s.err_cmds).collision()
}

/// Hand-written collision classes, each with a minimally different twin.
pub fn c14_fixed() -> Vec<C14Pair> {
    let p = |a: C14Set, t: C14Set| C14Pair { ambiguous: a, twin: t };
    vec![
        p(set("identical", &["A:B", "A:B"], false, false), set("identical", &["A:B", "A:B?"], false, false)),
        p(set("identical", &["MEAS:VOLT?", "MEAS:VOLT?"], false, false), set("identical", &["MEAS:VOLT?", "MEAS:VOLT"], false, false)),
        p(set("identical-common", &["*RST", "*RST"], false, false), set("identical-common", &["*RST", "*RST?"], false, false)),
        p(set("short-equals-long", &["VOLTage", "VOLT"], false, false), set("short-equals-long", &["VOLTage", "VOLTX"], false, false)),
        p(set("short-equals-long", &["MEAS:VOLTage?", "MEAS:VOLT?"], false, false), set("short-equals-long", &["MEAS:VOLTage?", "MEAS:VOLT"], false, false)),
        p(set("short-equals-long", &["TeST:A", "TST:A"], false, false), set("short-equals-long", &["TeST:A", "TS:A"], false, false)),
        p(set("short-equals-long", &["SYSTem:A", "SYST:A", "B"], false, false), set("short-equals-long", &["SYSTem:A", "SYS:A", "B"], false, false)),
        p(set("case-only", &["VOLTage", "VOLTAGE"], false, false), set("case-only", &["VOLTage", "VOLTAGES"], false, false)),
        p(set("case-only", &["RANGe:AUTO?", "RANGE:AUTO?"], false, false), set("case-only", &["RANGe:AUTO?", "RANGE:AUTO"], false, false)),
        p(set("optional-leading", &["[A]:B", "B"], false, false), set("optional-leading", &["[A]:B", "B?"], false, false)),
        p(set("optional-leading", &["[SOURce]:FREQ?", "FREQ?"], false, false), set("optional-leading", &["SOURce:FREQ?", "FREQ?"], false, false)),
        p(set("optional-trailing", &["A:[B]", "A"], false, false), set("optional-trailing", &["A:B", "A"], false, false)),
        p(set("optional-trailing", &["SYSTem:ERRor:[NEXT]?", "SYSTem:ERRor?"], false, false), set("optional-trailing", &["SYSTem:ERRor:NEXT?", "SYSTem:ERRor?"], false, false)),
        p(set("optional-middle", &["A:[B]:C", "A:C"], false, false), set("optional-middle", &["A:[B]:C", "A:D"], false, false)),
        p(set("optional-middle", &["OUTP:[STATe]:ON?", "OUTPut:ON?"], false, false), set("optional-middle", &["OUTP:[STATe]:ON?", "OUTPut:ON"], false, false)),
        p(set("both-optional", &["[A]:C", "[B]:C"], false, false), set("both-optional", &["[A]:C", "[B]:D"], false, false)),
        p(set("both-optional", &["[X]:[Y]:Z?", "[Y]:Z?"], false, false), set("both-optional", &["[X]:[Y]:Z?", "[Q]:Z"], false, false)),
        p(set("optional-short-long", &["[VOLTage]:DC", "VOLT:DC"], false, false), set("optional-short-long", &["[VOLTage]:DC", "VOLT:AC"], false, false)),
        p(set("deep-prefix", &["A:B:C:Dd", "A:B:C:D"], false, false), set("deep-prefix", &["A:B:C:Dd", "A:B:C:DX"], false, false)),
        p(set("deep-prefix", &["AAa:B:C?", "AA:B:C?"], false, false), set("deep-prefix", &["AAa:B:C?", "AAA:B:C"], false, false)),
        p(set("standard-version", &["SYSTem:VERSion?"], true, false), set("standard-version", &["SYSTem:VERSion?"], false, false)),
        p(set("standard-version", &["SYST:VERS?", "X"], true, false), set("standard-version", &["SYST:VERS", "X"], true, false)),
        p(set("standard-error", &["SYSTem:ERRor?"], false, true), set("standard-error", &["SYSTem:ERRor?"], false, false)),
        p(set("standard-error", &["SYST:ERR:NEXT?"], false, true), set("standard-error", &["SYST:ERR:NEXT"], false, true)),
        p(set("standard-error", &["SYSTem:ERRor:COUNt?"], true, true), set("standard-error", &["SYSTem:ERRor:COUNt?"], true, false)),
        p(set("standard-error", &["SYSTEM:ERROR:COUN?", "A"], false, true), set("standard-error", &["SYSTEM:ERROR:COUNX?", "A"], false, true)),
        p(set("third-of-three", &["A", "B", "C", "D:E", "C"], false, false), set("third-of-three", &["A", "B", "C", "D:E", "C?"], false, false)),
        p(set("query-vs-query", &["A:B?", "[X]:A:B?", "A:[C]:B?"], false, false), set("query-vs-query", &["A:B?", "[X]:A:B", "A:[C]:D?"], false, false)),
        p(set("identical-common-case", &["*rst", "*RST"], false, false), set("identical-common-case", &["*rst", "*RST?"], false, false)),
        p(set("identical-common-case", &["*Opc?", "*OPC?", "A"], false, false), set("identical-common-case", &["*Opc?", "*OPC", "A"], false, false)),
        p(set("two-trailing-optional", &["SOURce:VOLTage?", "SOURce:VOLTage:[LEVel]:[IMMediate]?"], false, false), set("two-trailing-optional", &["SOURce:VOLTage?", "SOURce:VOLTage:[LEVel]:IMMediate?"], false, false)),
        p(set("two-trailing-optional", &["A:[B]:[C]", "A"], false, false), set("two-trailing-optional", &["A:[B]:[C]", "A?"], false, false)),
        p(set("two-trailing-optional", &["X:[Y]:[Z]:[W]?", "Q", "X?"], false, false), set("two-trailing-optional", &["X:[Y]:[Z]:[W]?", "Q", "X"], false, false)),
        p(set("two-leading-optional", &["[A]:[B]:C", "C"], false, false), set("two-leading-optional", &["[A]:[B]:C", "C?"], false, false)),
        p(set("optional-both-sides", &["[A]:B:[C]?", "B?"], false, false), set("optional-both-sides", &["[A]:B:[C]?", "B"], false, false)),
        p(set("short-and-omitted", &["[SOURce]:VOLTage:[DC]?", "VOLT?"], false, false), set("short-and-omitted", &["[SOURce]:VOLTage:[DC]?", "VOLT"], false, false)),
        p(set("deep", &["A:B:C:D:E", "A:B:C:D:E"], false, false), set("deep", &["A:B:C:D:E", "A:B:C:D:E?", "A:B:C:D", "A:B:C"], false, false)),
        p(set("deep", &["A:B:C:[D]:E?", "A:B:C:E?"], false, false), set("deep", &["A:B:C:[D]:E?", "A:B:C:F?"], false, false)),
        p(set("spelling-noise", &["A::B", "A:B"], false, false), set("spelling-noise", &["A::B", "A:B?"], false, false)),
        p(set("spelling-noise", &[":A:B", "A:B:"], false, false), set("spelling-noise", &[":A:B", "A:C:"], false, false)),
        p(set("spelling-noise", &["A : B?", "A:B?"], false, false), set("spelling-noise", &["A : B?", "A:B"], false, false)),
        // twins that are distinct only under the exact reading of a spelling (node boundaries,
        // order, depth, suffixes): a lossy collision key would reject them
        p(set("near-collision/node-boundary", &["A:BC", "A:BC"], false, false), set("near-collision/node-boundary", &["A:BC", "AB:C", "ABC", "A:B:C"], false, false)),
        p(set("near-collision/node-boundary", &["SYSTem:TIMe:ZONE?", "SYST:TIM:ZONE?"], false, false), set("near-collision/node-boundary", &["SYSTem:TIMe:ZONE?", "SYSTem:TIMEZone?"], false, false)),
        p(set("near-collision/node-boundary", &["DATa:LOG", "DAT:LOG"], false, false), set("near-collision/node-boundary", &["DATa:LOG", "DATALog", "DATALOG:X"], false, false)),
        p(set("near-collision/order", &["A:B", "A:B"], false, false), set("near-collision/order", &["A:B", "B:A", "A:A", "B:B"], false, false)),
        p(set("near-collision/prefix", &["A:B?", "A:B?"], false, false), set("near-collision/prefix", &["A?", "A:B?", "A:B:C?", "A:B:C:D?"], false, false)),
        p(set("near-collision/suffix", &["CH1:X", "CH1:X"], false, false), set("near-collision/suffix", &["CH1:X", "CH2:X", "CH:X", "CH_1:X", "CH11:X"], false, false)),
        p(set("near-collision/suffix", &["CHANnel1", "CHAN1"], false, false), set("near-collision/suffix", &["CHANnel1", "CHANnel2", "CHANnel"], false, false)),
        p(set("near-collision/star", &["*RST", "*RST"], false, false), set("near-collision/star", &["*RST", "RST", "*RST?", "RST?"], false, false)),
        p(set("near-collision/optional", &["[A]:B", "B"], false, false), set("near-collision/optional", &["[A]:B", "[A]:C", "B:B", "A:[B]:D"], false, false)),
        p(set("near-collision/std", &["SYSTem:VERSion?"], true, false), set("near-collision/std", &["SYSTem:VERSion", "SYSTem:VERS1?", "SYSTem:ERRor?", "SYST:ERR:NEXT?", "SYST:ERR:COUN?"], true, false)),
        p(set("near-collision/std", &["SYST:ERR?"], false, true), set("near-collision/std", &["SYST:ERR", "SYST:ERR:NEXT", "SYST:ERR:COUN", "SYSTem:VERSion?", "SYST:ERR:[ALL]:X?"], false, true)),
        // an underscore inside a mnemonic is not a level separator
        p(set("near-collision/underscore", &["TRIGger:OUTput", "TRIG:OUT"], false, false), set("near-collision/underscore", &["TRIGger:OUTput", "TRIG_OUT"], false, false)),
        p(set("near-collision/underscore", &["A:B", "A:B"], false, false), set("near-collision/underscore", &["A:B", "A_B", "A:B_", "A_:B", "AB"], false, false)),
        p(set("near-collision/underscore", &["X_Y:Z?", "X_Y:Z?"], false, false), set("near-collision/underscore", &["X_Y:Z?", "X:Y:Z?", "X:Y_Z?", "XY:Z?"], false, false)),
        // the all-capitals spelling declared FIRST, the declaration whose short form / omitted node meets it second
        p(set("short-equals-long/caps-first", &["VOLT", "VOLTage"], false, false), set("short-equals-long/caps-first", &["VOLT", "VOLTSage"], false, false)),
        p(set("short-equals-long/caps-first", &["FREQ:MODE", "FREQuency:MODE"], false, false), set("short-equals-long/caps-first", &["FREQ:MODE", "FREQuency:MODE?"], false, false)),
        p(set("short-and-omitted/caps-first", &["FREQ:MODE", "[SOURce]:FREQuency:MODE"], false, false), set("short-and-omitted/caps-first", &["FREQ:MODE", "[SOURce]:FREQuency:MOD"], false, false)),
        p(set("short-and-omitted/caps-first", &["VOLT?", "[SOURce]:VOLTage:[DC]?"], false, false), set("short-and-omitted/caps-first", &["VOLT?", "[SOURce]:VOLTage:[DC]"], false, false)),
        p(set("case-only/caps-first", &["VOLTAGE", "VOLTage"], false, false), set("case-only/caps-first", &["VOLTAGES", "VOLTage"], false, false)),
    ]
    .into_iter()
    .flat_map(|pair| {
        // every set also with its declarations in the opposite order (what is declared first must not matter)
        let rev = |s: &C14Set, class: &'static str| C14Set { class, decls: s.decls.iter().rev().cloned().collect(), std_cmds: s.std_cmds, err_cmds: s.err_cmds };
        let r = C14Pair { ambiguous: rev(&pair.ambiguous, "reversed-order"), twin: rev(&pair.twin, "reversed-order") };
        vec![pair, r]
    })
    .collect()
}

/// Derives an ambiguous set from a random collision-free one, and a twin.
pub fn c14_random(rng: &mut Rng) -> Option<C14Pair> {
    let path_style = rng.chance(1, 2);
    let base = random_iface("x", rng, path_style);
    let mut decls: Vec<String> = base.decls.iter().map(|d| d.cmd.clone()).collect();
    if decls.len() > 6 {
        decls.truncate(6);
    }
    let victim = rng.pick(&decls).clone();
    let dcl = parse_decl(&victim);
    if dcl.is_common() {
        return None;
    }
    // a second declaration that shares one spelling of the victim
    let sps = dcl.spellings();
    let sp = rng.pick(&sps).clone();
    let class: &'static str;
    let mut parts: Vec<String> = sp.clone();
    match rng.below(5) {
        0 => {
            class = "random/same-spelling";
        }
        4 => {
            // the same header plus two optional nodes behind it
            class = "random/two-extra-optional-trailing";
            parts.push("[ZQ]".to_string());
            parts.push("[ZR]".to_string());
        }
        1 => {
            // prepend an optional node that is not in use at this position
            class = "random/extra-optional-leading";
            parts.insert(0, "[ZQ]".to_string());
        }
        2 => {
            class = "random/extra-optional-trailing";
            let last = parts.pop().unwrap();
            parts.push(last);
            parts.insert(parts.len() - 1, "[ZQ]".to_string());
        }
        _ => {
            // lower-case tail: long form differs, short form is the shared spelling
            class = "random/longer-long-form";
            let last = parts.pop().unwrap();
            parts.push(format!("{}zq", last));
        }
    }
    let mut extra = parts.join(":");
    if dcl.query {
        extra.push('?');
    }
    if self_collides(&extra) {
        return None;
    }
    let mut amb = decls.clone();
    amb.insert(rng.below(decls.len() + 1), extra.clone());
    let a = C14Set { class, decls: amb.clone(), std_cmds: base.std_cmds, err_cmds: base.err_cmds };
    is_ambiguous(&a)?;
    // twin: the extra declaration gets the other kind; if that collides too, a changed letter
    let other_kind = if extra.ends_with('?') { extra[..extra.len() - 1].to_string() } else { format!("{}?", extra) };
    let mut tw = amb.clone();
    let pos = tw.iter().position(|d| *d == extra).unwrap();
    tw[pos] = other_kind;
    let mut t = C14Set { class, decls: tw, std_cmds: base.std_cmds, err_cmds: base.err_cmds };
    if is_ambiguous(&t).is_some() {
        let mut tw = amb;
        let changed = extra.replacen(|c: char| c.is_ascii_uppercase(), "QZ", 1);
        tw[pos] = changed;
        t = C14Set { class, decls: tw, std_cmds: base.std_cmds, err_cmds: base.err_cmds };
        if is_ambiguous(&t).is_some() || t.decls.iter().any(|d| self_collides(d) || !parse_decl(d).nodes.iter().all(|n| spellable(&n.long))) {
            return None;
        }
    }
    Some(C14Pair { ambiguous: a, twin: t })
}

pub fn emit_c14_module(s: &C14Set) -> String {
    let mut o = String::new();
    o.push_str("// generated by mon::genr (C14) - do not edit\n#![allow(dead_code)]\n");
    if s.err_cmds {
        o.push_str("pub struct Dev { q: ::microscpi::StaticErrorQueue<2> }\n");
        o.push_str("impl ::microscpi::ErrorCommands for Dev {\n    fn error_queue(&mut self) -> &mut impl ::microscpi::ErrorQueue { &mut self.q }\n}\n");
    }
    else {
        o.push_str("pub struct Dev;\nimpl ::microscpi::ErrorHandler for Dev {\n    fn handle_error(&mut self, _e: ::microscpi::Error) {}\n}\n");
    }
    if s.std_cmds {
        o.push_str("impl ::microscpi::StandardCommands for Dev {}\n");
    }
    let attrs: Vec<&str> = [(s.std_cmds, "StandardCommands"), (s.err_cmds, "ErrorCommands")].iter().filter(|(b, _)| *b).map(|(_, n)| *n).collect();
    if attrs.is_empty() {
        o.push_str("#[::microscpi::interface]\n");
    }
    else {
        o.push_str(&format!("#[::microscpi::interface({})]\n", attrs.join(", ")));
    }
    o.push_str("impl Dev {\n");
    for (i, d) in s.decls.iter().enumerate() {
        // handlers of different shapes: sync, async, with a parameter
        match i % 3 {
            0 => o.push_str(&format!("    #[scpi(cmd = {:?})]\n    pub fn h{}(&mut self) -> Result<(), ::microscpi::Error> {{ Ok(()) }}\n", d, i)),
            1 => o.push_str(&format!("    #[scpi(cmd = {:?})]\n    pub async fn h{}(&mut self) -> Result<u8, ::microscpi::Error> {{ Ok({}) }}\n", d, i, i % 200)),
            _ => o.push_str(&format!("    #[scpi(cmd = {:?})]\n    pub fn h{}(&mut self, _p: u8) -> Result<(), ::microscpi::Error> {{ Ok(()) }}\n", d, i)),
        }
    }
    o.push_str("}\n");
    o
}

/// Emits crates `amb` and `twin` under `dir` plus `sets.json` describing them.
pub fn emit_c14(dir: &std::path::Path, repo: &str, pairs: &[C14Pair]) -> std::io::Result<()> {
    use crate::out::J;
    for (cname, pick_amb) in [("amb", true), ("twin", false)] {
        let cdir = dir.join(cname);
        let _ = std::fs::remove_dir_all(cdir.join("src"));
        std::fs::create_dir_all(cdir.join("src"))?;
        let mut lib = String::from("// generated - do not edit\n");
        for (k, p) in pairs.iter().enumerate() {
            let s = if pick_amb { &p.ambiguous } else { &p.twin };
            lib.push_str(&format!("pub mod m{};\n", k));
            std::fs::write(cdir.join("src").join(format!("m{}.rs", k)), emit_c14_module(s))?;
        }
        std::fs::write(cdir.join("src/lib.rs"), lib)?;
        std::fs::write(
            cdir.join("Cargo.toml"),
            format!("[package]\nname = \"c14{}\"\nversion = \"0.0.0\"\nedition = \"2021\"\n\n[workspace]\n\n[dependencies]\nmicroscpi = {{ path = \"{}/microscpi\" }}\n", cname, repo),
        )?;
    }
    let mut arr = Vec::new();
    for (k, p) in pairs.iter().enumerate() {
        let col = is_ambiguous(&p.ambiguous);
        arr.push(J::obj(vec![
            ("module", J::s(format!("m{}", k))),
            ("class", J::s(p.ambiguous.class)),
            ("ambiguous", J::strs(p.ambiguous.decls.clone())),
            ("ambiguous_attrs", J::s(format!("std={} err={}", p.ambiguous.std_cmds, p.ambiguous.err_cmds))),
            ("twin", J::strs(p.twin.decls.clone())),
            ("twin_attrs", J::s(format!("std={} err={}", p.twin.std_cmds, p.twin.err_cmds))),
            (
                "shared_spelling",
                match &col {
                    Some((i, j, sp)) => J::s(format!("declarations #{} and #{} share {}", i, j, sp.join(":"))),
                    None => J::Null,
                },
            ),
            ("model_says_ambiguous", col.is_some().into()),
            ("model_says_twin_collision_free", is_ambiguous(&p.twin).is_none().into()),
        ]));
    }
    std::fs::write(dir.join("sets.json"), J::Arr(arr).to_string())
}
