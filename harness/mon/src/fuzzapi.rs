//! Entry point for the coverage-guided layer (cargo-fuzz target in /verif/fuzz): libFuzzer is
//! only a workload generator; the verdict is still the monitors' (C05, C07, C12 oracles on the
//! recorded execution).  Returns a description of the violation, if any.

use crate::drive::{IfaceDesc, ProcSpec, RunSpec, WriterKind, HEAPLESS_CAPS};
use crate::ev::{esc, Ev};
use crate::props::c12::{verdict, V};
use crate::sem::streams;

fn c05_oracle(total: usize, out: &crate::drive::RunOut) -> Option<String> {
    if let Some(p) = &out.panic {
        if !out.harness_abort() {
            return Some(format!("C05 panic escaped the library: {}", p));
        }
        return None;
    }
    if out.stuck {
        return Some("C05 poll budget exceeded".into());
    }
    let mut events = 0usize;
    for e in &out.log {
        match e {
            Ev::Enter { .. } | Ev::Error { .. } => events += 1,
            Ev::RunRet { given, rest, suffix } => {
                if !*suffix || rest > given {
                    return Some("C05 run returned a slice that is not a suffix of its input".into());
                }
            }
            _ => {}
        }
    }
    if events > total + 1 {
        return Some(format!("C05 runaway: {} events for {} bytes", events, total));
    }
    None
}

pub fn fuzz_one(iface: &IfaceDesc, data: &[u8]) -> Option<String> {
    if data.len() < 3 {
        return None;
    }
    let (mode, a, b, input) = (data[0] % 4, data[1] as usize, data[2] as usize, &data[3..]);
    let input = &input[..input.len().min(300)];
    let ns = (iface.ns)();
    match mode {
        0 => {
            let w = if a % 3 == 0 { WriterKind::Rec(Some(b % 65)) } else { WriterKind::Heapless(HEAPLESS_CAPS[a % HEAPLESS_CAPS.len()]) };
            let out = (iface.run)(&RunSpec { inputs: &[input], writer: w, pend_seed: (b as u64) & 1 });
            c05_oracle(input.len(), &out).map(|m| format!("{} [run {:?} on \"{}\"]", m, w, esc(input)))
        }
        1 => {
            let n = ns[a % ns.len()];
            let chunk = 1 + b % 9;
            let chunks = vec![chunk; input.len() / chunk + 2];
            let out = (iface.process)(&ProcSpec { stream: input, n, chunks: &chunks, pend_seed: 0, fault_at: None });
            c05_oracle(input.len() * 2 + 2, &out).map(|m| format!("{} [process::<{}> chunk {} on \"{}\"]", m, n, chunk, esc(input)))
        }
        2 => {
            // C12: verdicts of a prefix and of the whole
            if input.is_empty() {
                return None;
            }
            let root = (iface.root)();
            let k = 1 + a % input.len();
            let (vx, vxy) = (verdict(root, root, &input[..k]), verdict(root, root, input));
            let bad = match vx {
                V::Ok(c, d) => c == 0 || vxy != V::Ok(c, d),
                V::Err(_) => input[k - 1] == b'\n' && matches!(vxy, V::Ok(..)),
                V::Incomplete => crate::props::c12::ends_in_plain_terminator(&input[..k]),
            };
            if bad && (k < input.len() || matches!(vx, V::Incomplete)) || matches!(vx, V::Ok(0, _)) {
                return Some(format!("C12 parse(\"{}\") = {:?} but parse(\"{}\") = {:?}", esc(&input[..k]), vx, esc(input), vxy));
            }
            None
        }
        _ => {
            // C07: byte-wise vs chunked delivery
            let n = ns[a % ns.len()];
            let ones = vec![1usize; input.len()];
            let r = (iface.process)(&ProcSpec { stream: input, n, chunks: &ones, pend_seed: 0, fault_at: None });
            let chunk = 2 + b % 11;
            let chunks = vec![chunk; input.len() / chunk + 2];
            let o = (iface.process)(&ProcSpec { stream: input, n, chunks: &chunks, pend_seed: 0, fault_at: None });
            if r.crashed() || o.crashed() {
                return c05_oracle(input.len() * 2 + 2, &r).or(c05_oracle(input.len() * 2 + 2, &o));
            }
            if streams(&r.log) != streams(&o.log) {
                return Some(format!("C07 process::<{}> on \"{}\": byte-wise and {}-byte reads differ", n, esc(input), chunk));
            }
            None
        }
    }
}
