//! Minimal single-task executor with `Poll::Pending` injection support.

use std::cell::Cell;
use std::future::Future;
use std::pin::Pin;
use std::task::{Context, Poll, RawWaker, RawWakerVTable, Waker};

fn noop_raw() -> RawWaker {
    fn no(_: *const ()) {}
    fn clone(_: *const ()) -> RawWaker {
        noop_raw()
    }
    static VT: RawWakerVTable = RawWakerVTable::new(clone, no, no, no);
    RawWaker::new(std::ptr::null(), &VT)
}

thread_local! {
    static POLLS: Cell<u64> = const { Cell::new(0) };
    static PENDINGS: Cell<u64> = const { Cell::new(0) };
    /// state of the Pending-injection plan: 0 = never suspend
    static PEND_STATE: Cell<u64> = const { Cell::new(0) };
}

#[derive(Debug, Clone, PartialEq)]
pub enum Stop {
    /// more than `max_polls` polls: the task keeps returning Pending although
    /// every injected suspension is finite -> treated as a hang by C05.
    PollBudget,
}

/// Polls the future to completion.  Every Pending returned by the task comes
/// from `yield_k` (finite), so the loop terminates unless the task itself
/// spins; `max_polls` bounds that.
pub fn block_on<F: Future>(fut: F, max_polls: u64) -> Result<F::Output, Stop> {
    let waker = unsafe { Waker::from_raw(noop_raw()) };
    let mut cx = Context::from_waker(&waker);
    let mut fut = std::pin::pin!(fut);
    let mut n = 0u64;
    loop {
        n += 1;
        POLLS.with(|p| p.set(p.get() + 1));
        match fut.as_mut().poll(&mut cx) {
            Poll::Ready(v) => return Ok(v),
            Poll::Pending => {
                if n > max_polls {
                    return Err(Stop::PollBudget);
                }
            }
        }
    }
}

pub fn polls() -> u64 {
    POLLS.with(|p| p.get())
}
pub fn pendings() -> u64 {
    PENDINGS.with(|p| p.get())
}

/// Seeds the suspension plan of this thread.  0 disables suspensions.
pub fn set_pending_plan(seed: u64) {
    PEND_STATE.with(|s| s.set(seed));
}

/// How often the next suspension point should return Pending (0..=2).
pub fn next_pending_count() -> u32 {
    PEND_STATE.with(|s| {
        let mut x = s.get();
        if x == 0 {
            return 0;
        }
        x ^= x >> 12;
        x ^= x << 25;
        x ^= x >> 27;
        if x == 0 {
            x = 0x9E3779B97F4A7C15;
        }
        s.set(x);
        let r = x.wrapping_mul(0x2545F4914F6CDD1D) >> 33;
        match r % 5 {
            0 | 1 => 0,
            2 | 3 => 1,
            _ => 2,
        }
    })
}

pub struct YieldK(pub u32);

impl Future for YieldK {
    type Output = ();
    fn poll(mut self: Pin<&mut Self>, cx: &mut Context<'_>) -> Poll<()> {
        if self.0 == 0 {
            Poll::Ready(())
        }
        else {
            self.0 -= 1;
            PENDINGS.with(|p| p.set(p.get() + 1));
            cx.waker().wake_by_ref();
            Poll::Pending
        }
    }
}

/// A suspension point: returns Pending 0..=2 times according to the plan.
pub fn suspend() -> YieldK {
    YieldK(next_pending_count())
}
