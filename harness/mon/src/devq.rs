//! Recording error queue: the library's real `StaticErrorQueue<N>` behind a
//! pass-through recorder, so that every error handed to the error handler is
//! an event in the log *and* reaches the real queue.

use microscpi::{Error, ErrorQueue, StaticErrorQueue};

#[derive(Default)]
pub struct RecQueue<const N: usize> {
    pub inner: StaticErrorQueue<N>,
}

impl<const N: usize> ErrorQueue for RecQueue<N> {
    fn error_count(&self) -> usize {
        self.inner.error_count()
    }
    fn push_error(&mut self, error: Error) {
        crate::ev::record_error(error);
        self.inner.push_error(error)
    }
    fn pop_error(&mut self) -> Option<Error> {
        self.inner.pop_error()
    }
}
