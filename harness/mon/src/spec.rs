//! Property-level spec model used by the oracles (DESIGN.md section 4).
//!
//! Deliberately not a re-implementation of the parser: it works on ASTs that
//! the workload generator built (mnemonic lists, typed literals) and on the
//! declaration strings, and states only what the properties state.

use crate::ev::Leaf;

// ---------------------------------------------------------------------------
// declarations and the header matcher (C01, C02, C06, C14)
// ---------------------------------------------------------------------------

#[derive(Clone, Debug, PartialEq)]
pub struct DNode {
    /// full declared spelling, upper-cased
    pub long: String,
    /// declared spelling with its lower-case letters removed
    pub short: String,
    pub optional: bool,
}

#[derive(Clone, Debug, PartialEq)]
pub struct Decl {
    pub nodes: Vec<DNode>,
    pub query: bool,
}

pub fn parse_decl(s: &str) -> Decl {
    let (body, query) = match s.strip_suffix('?') {
        Some(b) => (b, true),
        None => (s, false),
    };
    let mut nodes = Vec::new();
    for part in body.split(':') {
        let part = part.trim();
        if part.is_empty() {
            continue;
        }
        let (name, optional) = if part.len() >= 2 && part.starts_with('[') && part.ends_with(']') {
            (&part[1..part.len() - 1], true)
        }
        else {
            (part, false)
        };
        let short: String = name.chars().filter(|c| !c.is_ascii_lowercase()).collect();
        let long = name.to_ascii_uppercase();
        nodes.push(DNode { long, short, optional });
    }
    Decl { nodes, query }
}

impl Decl {
    pub fn is_common(&self) -> bool {
        self.nodes.len() == 1 && self.nodes[0].long.starts_with('*')
    }

    /// Does the header (mnemonics in any case, query mark) spell this declaration?
    pub fn matches(&self, mnems: &[&str], query: bool) -> bool {
        if query != self.query {
            return false;
        }
        // NFA walk: set of node indices reachable after consuming k mnemonics.
        fn walk(nodes: &[DNode], mnems: &[&str]) -> bool {
            match (nodes.first(), mnems.first()) {
                (None, None) => true,
                (None, Some(_)) => false,
                (Some(n), m) => {
                    if n.optional && walk(&nodes[1..], mnems) {
                        return true;
                    }
                    match m {
                        Some(m) => {
                            (m.eq_ignore_ascii_case(&n.long) || m.eq_ignore_ascii_case(&n.short))
                                && walk(&nodes[1..], &mnems[1..])
                        }
                        None => false,
                    }
                }
            }
        }
        walk(&self.nodes, mnems)
    }

    /// Every spelling (upper case) of this declaration.
    pub fn spellings(&self) -> Vec<Vec<String>> {
        let mut acc: Vec<Vec<String>> = vec![vec![]];
        for n in &self.nodes {
            let mut next = Vec::new();
            for p in &acc {
                let mut l = p.clone();
                l.push(n.long.clone());
                next.push(l);
                if n.short != n.long {
                    let mut s = p.clone();
                    s.push(n.short.clone());
                    next.push(s);
                }
                if n.optional {
                    next.push(p.clone());
                }
            }
            acc = next;
        }
        acc.sort();
        acc.dedup();
        acc
    }
}

#[derive(Clone, Copy, Debug, PartialEq, Eq, Hash)]
pub enum Target {
    /// index into the interface's user declarations
    User(u16),
    SystVers,
    SystErrNext,
    SystErrCount,
}

#[derive(Clone, Debug)]
pub struct Model {
    pub decls: Vec<(Decl, Target)>,
}

pub const STD_VERS: &str = "SYSTem:VERSion?";
pub const STD_ERR_NEXT: &str = "SYSTem:ERRor:[NEXT]?";
pub const STD_ERR_COUNT: &str = "SYSTem:ERRor:COUNt?";

impl Model {
    pub fn new(user: &[&str], std_cmds: bool, err_cmds: bool) -> Model {
        let mut decls: Vec<(Decl, Target)> =
            user.iter().enumerate().map(|(i, s)| (parse_decl(s), Target::User(i as u16))).collect();
        if std_cmds {
            decls.push((parse_decl(STD_VERS), Target::SystVers));
        }
        if err_cmds {
            decls.push((parse_decl(STD_ERR_NEXT), Target::SystErrNext));
            decls.push((parse_decl(STD_ERR_COUNT), Target::SystErrCount));
        }
        Model { decls }
    }

    /// All declarations an absolute header spells.
    pub fn resolve_all(&self, mnems: &[&str], query: bool) -> Vec<Target> {
        self.decls.iter().filter(|(d, _)| d.matches(mnems, query)).map(|(_, t)| *t).collect()
    }

    /// The declaration an absolute header spells (None if undefined).
    pub fn resolve(&self, mnems: &[&str], query: bool) -> Option<Target> {
        self.resolve_all(mnems, query).first().copied()
    }

    /// First pair of declarations of the same kind that share a spelling.
    pub fn collision(&self) -> Option<(usize, usize, Vec<String>)> {
        use std::collections::HashMap;
        let mut seen: HashMap<(Vec<String>, bool), usize> = HashMap::new();
        for (i, (d, _)) in self.decls.iter().enumerate() {
            for sp in d.spellings() {
                if let Some(&j) = seen.get(&(sp.clone(), d.query)) {
                    if j != i {
                        return Some((j, i, sp));
                    }
                }
                else {
                    seen.insert((sp, d.query), i);
                }
            }
        }
        None
    }

    /// Is `prefix` (spelled mnemonics) a proper prefix of some spelling, i.e. does
    /// a tree level with that spelled path exist?
    pub fn is_path(&self, prefix: &[&str]) -> bool {
        if prefix.is_empty() {
            return true;
        }
        self.decls.iter().any(|(d, _)| {
            d.spellings().iter().any(|sp| {
                sp.len() > prefix.len() && sp.iter().zip(prefix).all(|(a, b)| a.eq_ignore_ascii_case(b))
            })
        })
    }
}

// ---------------------------------------------------------------------------
// IEEE 488.2 response data decoder (C04, C09, C10)
// ---------------------------------------------------------------------------

#[derive(Clone, Debug, PartialEq)]
pub enum Tok {
    Num(String),
    Str(Vec<u8>),
    Blk(Vec<u8>),
    Chars(String),
}

/// Decodes one response message (items separated by commas, ended by a
/// newline) from the start of `bytes`.  Returns the items and the number of
/// bytes consumed including the newline.
pub fn decode_response(bytes: &[u8]) -> Result<(Vec<Tok>, usize), String> {
    let mut i = 0usize;
    let mut toks = Vec::new();
    if bytes.first() == Some(&b'\n') {
        return Ok((toks, 1));
    }
    loop {
        if i >= bytes.len() {
            return Err(format!("response ends without newline at byte {}", i));
        }
        match bytes[i] {
            b'"' => {
                let mut s = Vec::new();
                i += 1;
                loop {
                    if i >= bytes.len() {
                        return Err("unterminated string in response".into());
                    }
                    if bytes[i] == b'"' {
                        if i + 1 < bytes.len() && bytes[i + 1] == b'"' {
                            s.push(b'"');
                            i += 2;
                        }
                        else {
                            i += 1;
                            break;
                        }
                    }
                    else {
                        s.push(bytes[i]);
                        i += 1;
                    }
                }
                toks.push(Tok::Str(s));
            }
            b'#' => {
                if i + 1 >= bytes.len() || !(b'1'..=b'9').contains(&bytes[i + 1]) {
                    return Err(format!("malformed block header at byte {}", i));
                }
                let nd = (bytes[i + 1] - b'0') as usize;
                if i + 2 + nd > bytes.len() {
                    return Err("block header truncated".into());
                }
                let lens = &bytes[i + 2..i + 2 + nd];
                if !lens.iter().all(|c| c.is_ascii_digit()) {
                    return Err("block length is not decimal".into());
                }
                let len: usize = std::str::from_utf8(lens).unwrap().parse().map_err(|_| "block length")?;
                let start = i + 2 + nd;
                if start + len > bytes.len() {
                    return Err("block payload truncated".into());
                }
                toks.push(Tok::Blk(bytes[start..start + len].to_vec()));
                i = start + len;
            }
            _ => {
                let start = i;
                while i < bytes.len() && bytes[i] != b',' && bytes[i] != b'\n' {
                    i += 1;
                }
                let item = &bytes[start..i];
                let text = std::str::from_utf8(item).map_err(|_| "non UTF-8 bare item".to_string())?.to_string();
                if is_nrf(item) {
                    toks.push(Tok::Num(text));
                }
                else if is_chars(item) {
                    toks.push(Tok::Chars(text));
                }
                else {
                    return Err(format!("item \"{}\" is neither a number nor character data", crate::ev::esc(item)));
                }
            }
        }
        if i >= bytes.len() {
            return Err("response ends without newline".into());
        }
        match bytes[i] {
            b',' => i += 1,
            b'\n' => return Ok((toks, i + 1)),
            other => return Err(format!("unexpected byte 0x{:02x} after item at {}", other, i)),
        }
    }
}

/// NR1 / NR2 / NR3
pub fn is_nrf(s: &[u8]) -> bool {
    let mut i = 0;
    if i < s.len() && (s[i] == b'+' || s[i] == b'-') {
        i += 1;
    }
    let d0 = i;
    while i < s.len() && s[i].is_ascii_digit() {
        i += 1;
    }
    let mut digits = i - d0;
    if i < s.len() && s[i] == b'.' {
        i += 1;
        let f0 = i;
        while i < s.len() && s[i].is_ascii_digit() {
            i += 1;
        }
        digits += i - f0;
    }
    if digits == 0 {
        return false;
    }
    if i < s.len() && (s[i] == b'E' || s[i] == b'e') {
        i += 1;
        if i < s.len() && (s[i] == b'+' || s[i] == b'-') {
            i += 1;
        }
        let e0 = i;
        while i < s.len() && s[i].is_ascii_digit() {
            i += 1;
        }
        if i == e0 {
            return false;
        }
    }
    i == s.len()
}

pub fn is_nr1(s: &[u8]) -> bool {
    let mut i = 0;
    if i < s.len() && (s[i] == b'+' || s[i] == b'-') {
        i += 1;
    }
    i < s.len() && s[i..].iter().all(|c| c.is_ascii_digit())
}

pub fn is_chars(s: &[u8]) -> bool {
    !s.is_empty() && s[0].is_ascii_alphabetic() && s.iter().all(|c| c.is_ascii_alphanumeric() || *c == b'_')
}

/// Compares decoded items with the value the handler returned.
pub fn match_leaves(toks: &[Tok], leaves: &[Leaf]) -> Result<(), String> {
    if toks.len() != leaves.len() {
        return Err(format!("{} items decoded, {} expected", toks.len(), leaves.len()));
    }
    for (k, (t, l)) in toks.iter().zip(leaves).enumerate() {
        let ok = match (t, l) {
            (Tok::Num(s), Leaf::Int(v)) => is_nr1(s.as_bytes()) && s.parse::<i128>().ok() == Some(*v),
            (Tok::Num(s), Leaf::Bool(b)) => (s == "1" && *b) || (s == "0" && !*b),
            (Tok::Num(s), Leaf::F32(bits)) => {
                let f = f32::from_bits(*bits);
                if f.is_nan() {
                    s == "9.91E+37"
                }
                else if f.is_infinite() {
                    (f > 0.0 && (s == "9.9E+37" || s == "+9.9E+37")) || (f < 0.0 && s == "-9.9E+37")
                }
                else {
                    s.parse::<f32>().ok().map(|p| p.to_bits()) == Some(*bits)
                }
            }
            (Tok::Num(s), Leaf::F64(bits)) => {
                let f = f64::from_bits(*bits);
                if f.is_nan() {
                    s == "9.91E+37"
                }
                else if f.is_infinite() {
                    (f > 0.0 && (s == "9.9E+37" || s == "+9.9E+37")) || (f < 0.0 && s == "-9.9E+37")
                }
                else {
                    s.parse::<f64>().ok().map(|p| p.to_bits()) == Some(*bits)
                }
            }
            (Tok::Str(a), Leaf::Str(b)) => a == b,
            (Tok::Chars(a), Leaf::Chars(b)) => a.as_bytes() == &b[..],
            // character data may look like a number (SYST:VERS? answers 1999.0)
            (Tok::Num(a), Leaf::Chars(b)) => a.as_bytes() == &b[..],
            (Tok::Blk(a), Leaf::Blk(b)) => a == b,
            _ => false,
        };
        if !ok {
            return Err(format!("item {} decodes to {:?}, handler returned {:?}", k, t, l));
        }
    }
    Ok(())
}

/// Bounded FIFO with IEEE 488.2 overflow semantics (C09).
#[derive(Clone, Debug, Default)]
pub struct QueueModel {
    pub cap: usize,
    pub items: std::collections::VecDeque<(i16, String)>,
}

impl QueueModel {
    pub fn new(cap: usize) -> Self {
        QueueModel { cap, items: Default::default() }
    }
    pub fn push(&mut self, num: i16, text: &str) {
        if self.items.len() < self.cap {
            self.items.push_back((num, text.to_string()));
        }
        else if let Some(last) = self.items.back_mut() {
            *last = (-350, "Queue overflow".to_string());
        }
    }
    pub fn pop(&mut self) -> (i16, String) {
        self.items.pop_front().unwrap_or((0, String::new()))
    }
    pub fn count(&self) -> usize {
        self.items.len()
    }
}

#[cfg(test)]
mod tests {
    use super::*;

    #[test]
    fn matcher() {
        let d = parse_decl("[SYSTem]:TeST:A?");
        assert!(d.matches(&["TST", "a"], true));
        assert!(d.matches(&["system", "TEST", "A"], true));
        assert!(!d.matches(&["SYSTE", "TEST", "A"], true));
        assert!(!d.matches(&["TST", "A"], false));
        assert!(!d.matches(&["TST"], true));
        assert_eq!(d.spellings().len(), 3 * 2);
        let m = Model::new(&["[A]:B", "B"], false, false);
        assert!(m.collision().is_some());
        let m = Model::new(&["[A]:B", "B?"], false, false);
        assert!(m.collision().is_none());
    }

    #[test]
    fn decoder() {
        let (t, n) = decode_response(b"-113,\"Undefined \"\"header\"\"\",#13a\nb,ON\nrest").unwrap();
        assert_eq!(n, 43 - 4);
        assert_eq!(t, vec![
            Tok::Num("-113".into()),
            Tok::Str(b"Undefined \"header\"".to_vec()),
            Tok::Blk(b"a\nb".to_vec()),
            Tok::Chars("ON".into())
        ]);
        assert!(decode_response(b"\"a\"b\"\n").is_err());
        assert!(decode_response(b"1.5e\n").is_err());
    }
}
