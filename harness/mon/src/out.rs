//! Minimal JSON value + result type shared by all monitors.

#[derive(Clone, Debug)]
pub enum J {
    Null,
    Bool(bool),
    Int(i64),
    Num(f64),
    Str(String),
    Arr(Vec<J>),
    Obj(Vec<(String, J)>),
}

impl J {
    pub fn s(x: impl Into<String>) -> J {
        J::Str(x.into())
    }
    pub fn strs<I: IntoIterator<Item = String>>(it: I) -> J {
        J::Arr(it.into_iter().map(J::Str).collect())
    }
    pub fn obj(kv: Vec<(&str, J)>) -> J {
        J::Obj(kv.into_iter().map(|(k, v)| (k.to_string(), v)).collect())
    }
    pub fn write(&self, o: &mut String) {
        match self {
            J::Null => o.push_str("null"),
            J::Bool(b) => o.push_str(if *b { "true" } else { "false" }),
            J::Int(i) => o.push_str(&i.to_string()),
            J::Num(f) => {
                if f.is_finite() {
                    o.push_str(&format!("{}", f))
                }
                else {
                    o.push_str("null")
                }
            }
            J::Str(s) => {
                o.push('"');
                for c in s.chars() {
                    match c {
                        '"' => o.push_str("\\\""),
                        '\\' => o.push_str("\\\\"),
                        '\n' => o.push_str("\\n"),
                        '\r' => o.push_str("\\r"),
                        '\t' => o.push_str("\\t"),
                        c if (c as u32) < 0x20 => o.push_str(&format!("\\u{:04x}", c as u32)),
                        c => o.push(c),
                    }
                }
                o.push('"');
            }
            J::Arr(v) => {
                o.push('[');
                for (i, x) in v.iter().enumerate() {
                    if i > 0 {
                        o.push(',');
                    }
                    x.write(o);
                }
                o.push(']');
            }
            J::Obj(v) => {
                o.push('{');
                for (i, (k, x)) in v.iter().enumerate() {
                    if i > 0 {
                        o.push(',');
                    }
                    J::Str(k.clone()).write(o);
                    o.push(':');
                    x.write(o);
                }
                o.push('}');
            }
        }
    }
    pub fn to_string(&self) -> String {
        let mut s = String::new();
        self.write(&mut s);
        s
    }
}

impl From<u64> for J {
    fn from(v: u64) -> J {
        J::Int(v as i64)
    }
}
impl From<usize> for J {
    fn from(v: usize) -> J {
        J::Int(v as i64)
    }
}
impl From<bool> for J {
    fn from(v: bool) -> J {
        J::Bool(v)
    }
}
impl From<&str> for J {
    fn from(v: &str) -> J {
        J::Str(v.to_string())
    }
}
impl From<String> for J {
    fn from(v: String) -> J {
        J::Str(v)
    }
}

/// One oracle rejection, with everything needed to replay it.
#[derive(Clone, Debug)]
pub struct Violation {
    /// signature: (oracle clause / fault kind / discriminating feature); the
    /// known-findings file is keyed on it
    pub sig: String,
    pub summary: String,
    pub witness: J,
}

#[derive(Clone, Debug, Default)]
pub struct PropResult {
    pub violations: Vec<Violation>,
    /// number of oracle rejections in total (violations keeps the first few per signature)
    pub violation_count: u64,
    pub evaluations: u64,
    pub distinct: u64,
    pub rule: String,
    pub samples: Vec<J>,
    pub coverage: Vec<(String, J)>,
    pub assumptions: Vec<String>,
    /// Some(reason): the run cannot be used as a verdict
    pub inconclusive: Option<String>,
    /// cases not judged because a crash (C05's business) got in the way
    pub skipped_crash: u64,
}

impl PropResult {
    pub fn add_violation(&mut self, v: Violation) {
        self.violation_count += 1;
        let same = self.violations.iter().filter(|x| x.sig == v.sig).count();
        if same < 3 && self.violations.len() < 60 {
            self.violations.push(v);
        }
    }
    /// Records an actual case of this run as a sample (the first two per work shard).
    pub fn sample(&mut self, f: impl FnOnce() -> J) {
        if self.samples.len() < 2 {
            self.samples.push(f());
        }
    }
    pub fn cov(&mut self, k: &str, v: impl Into<J>) {
        self.coverage.push((k.to_string(), v.into()));
    }
    pub fn merge(&mut self, other: PropResult) {
        for v in other.violations {
            let same = self.violations.iter().filter(|x| x.sig == v.sig).count();
            if same < 3 && self.violations.len() < 60 {
                self.violations.push(v);
            }
        }
        self.violation_count += other.violation_count;
        self.evaluations += other.evaluations;
        self.distinct += other.distinct;
        self.skipped_crash += other.skipped_crash;
        if self.samples.len() < 8 {
            for s in other.samples {
                if self.samples.len() < 8 {
                    self.samples.push(s);
                }
            }
        }
        if self.inconclusive.is_none() {
            self.inconclusive = other.inconclusive;
        }
    }
    pub fn to_json(&self) -> J {
        J::obj(vec![
            (
                "violations",
                J::Arr(
                    self.violations
                        .iter()
                        .map(|v| J::obj(vec![("sig", J::s(&v.sig)), ("summary", J::s(&v.summary)), ("witness", v.witness.clone())]))
                        .collect(),
                ),
            ),
            ("violation_count", self.violation_count.into()),
            ("evaluations", self.evaluations.into()),
            ("distinct", self.distinct.into()),
            ("rule", J::s(&self.rule)),
            ("samples", J::Arr(self.samples.clone())),
            ("coverage", J::Obj(self.coverage.clone())),
            ("assumptions", J::strs(self.assumptions.clone())),
            ("inconclusive", self.inconclusive.clone().map(J::Str).unwrap_or(J::Null)),
            ("skipped_crash", self.skipped_crash.into()),
        ])
    }
}
