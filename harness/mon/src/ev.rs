//! Event log shared by all recorders of one execution (one total order).
//!
//! Everything is recorded at the client boundary of the library: handler
//! bodies, `ErrorHandler::handle_error`, the `microscpi::Write` given to `run`,
//! the `Adapter` given to `process`.  Nothing is recorded inside the library.

use std::cell::RefCell;

use crate::alloc::exempt;
use crate::prng::{fnv, fnv_add, splitmix};

#[derive(Clone, Debug, PartialEq)]
pub enum Arg {
    U8(u8),
    I8(i8),
    U16(u16),
    I16(i16),
    U32(u32),
    I32(i32),
    U64(u64),
    I64(i64),
    Usize(usize),
    Isize(isize),
    F32(u32),
    F64(u64),
    Bool(bool),
    Str(Vec<u8>),
    Blk(Vec<u8>),
}

impl Arg {
    pub fn hash_into(&self, h: u64) -> u64 {
        match self {
            Arg::U8(v) => fnv_add(fnv_add(h, b"u8"), &(*v as u64).to_le_bytes()),
            Arg::I8(v) => fnv_add(fnv_add(h, b"i8"), &(*v as i64).to_le_bytes()),
            Arg::U16(v) => fnv_add(fnv_add(h, b"u16"), &(*v as u64).to_le_bytes()),
            Arg::I16(v) => fnv_add(fnv_add(h, b"i16"), &(*v as i64).to_le_bytes()),
            Arg::U32(v) => fnv_add(fnv_add(h, b"u32"), &(*v as u64).to_le_bytes()),
            Arg::I32(v) => fnv_add(fnv_add(h, b"i32"), &(*v as i64).to_le_bytes()),
            Arg::U64(v) => fnv_add(fnv_add(h, b"u64"), &v.to_le_bytes()),
            Arg::I64(v) => fnv_add(fnv_add(h, b"i64"), &v.to_le_bytes()),
            Arg::Usize(v) => fnv_add(fnv_add(h, b"usz"), &(*v as u64).to_le_bytes()),
            Arg::Isize(v) => fnv_add(fnv_add(h, b"isz"), &(*v as i64).to_le_bytes()),
            Arg::F32(v) => fnv_add(fnv_add(h, b"f32"), &v.to_le_bytes()),
            Arg::F64(v) => fnv_add(fnv_add(h, b"f64"), &v.to_le_bytes()),
            Arg::Bool(v) => fnv_add(fnv_add(h, b"bool"), &[*v as u8]),
            Arg::Str(v) => fnv_add(fnv_add(h, b"str"), v),
            Arg::Blk(v) => fnv_add(fnv_add(h, b"blk"), v),
        }
    }
}

pub fn args_hash(args: &[Arg]) -> u64 {
    let mut h = fnv(b"args");
    for a in args {
        h = a.hash_into(h);
    }
    h
}

#[derive(Clone, Debug, PartialEq)]
pub enum Ev {
    /// handler entered, with the arguments it received
    Enter { h: u16, args: Vec<Arg> },
    /// handler left
    Exit { h: u16, ok: bool },
    /// ErrorHandler::handle_error (or ErrorQueue::push_error of a recording queue)
    Error { num: i16, text: String, dbg: String },
    /// bytes seen by the `Write` passed to run
    Write(Vec<u8>),
    Flush,
    /// Adapter::read served: capacity offered, bytes delivered
    Read { cap: usize, n: usize },
    /// Adapter::write
    AWrite(Vec<u8>),
    AFlush,
    /// the transport returned an error (token) from call number `call`
    AErr { token: u32, call: usize, kind: u8 },
    /// harness marker between run calls (index of the input that follows)
    Mark(u32),
    /// run returned: length given, length of the returned slice, whether the
    /// returned slice is a suffix of the input by pointer range
    RunRet { given: usize, rest: usize, suffix: bool },
    /// process returned
    ProcRet { ok: bool, token: u32 },
    /// final content of a real (heapless / std) writer after the run calls
    Out(Vec<u8>),
}

thread_local! {
    static LOG: RefCell<Vec<Ev>> = const { RefCell::new(Vec::new()) };
}

pub fn push(e: Ev) {
    exempt(|| LOG.with(|l| l.borrow_mut().push(e)));
}

/// Builds and pushes an event; the construction runs in the exempt section
/// (so that the recorder's own allocations are not attributed to the library).
pub fn push_with(f: impl FnOnce() -> Ev) {
    exempt(|| {
        let e = f();
        LOG.with(|l| l.borrow_mut().push(e));
    });
}

pub fn take() -> Vec<Ev> {
    exempt(|| LOG.with(|l| std::mem::take(&mut *l.borrow_mut())))
}

pub fn len() -> usize {
    LOG.with(|l| l.borrow().len())
}

pub fn record_error(e: microscpi::Error) {
    push_with(|| {
        let text: &str = e.into();
        Ev::Error { num: e.number(), text: text.to_string(), dbg: format!("{:?}", e) }
    });
}

// ---------------------------------------------------------------------------
// handler side helpers
// ---------------------------------------------------------------------------

pub trait ToArg {
    fn to_arg(&self) -> Arg;
}
macro_rules! to_arg_int {
    ($t:ty, $v:ident) => {
        impl ToArg for $t {
            fn to_arg(&self) -> Arg {
                Arg::$v(*self)
            }
        }
    };
}
to_arg_int!(u8, U8);
to_arg_int!(i8, I8);
to_arg_int!(u16, U16);
to_arg_int!(i16, I16);
to_arg_int!(u32, U32);
to_arg_int!(i32, I32);
to_arg_int!(u64, U64);
to_arg_int!(i64, I64);
to_arg_int!(usize, Usize);
to_arg_int!(isize, Isize);
to_arg_int!(bool, Bool);
impl ToArg for f32 {
    fn to_arg(&self) -> Arg {
        Arg::F32(self.to_bits())
    }
}
impl ToArg for f64 {
    fn to_arg(&self) -> Arg {
        Arg::F64(self.to_bits())
    }
}
thread_local! {
    static INVALID_UTF8: std::cell::Cell<bool> = const { std::cell::Cell::new(false) };
}

/// true if a handler was handed a `&str` that is not valid UTF-8 since the last call
pub fn take_invalid_utf8() -> bool {
    INVALID_UTF8.with(|c| c.replace(false))
}

impl ToArg for &str {
    fn to_arg(&self) -> Arg {
        // a `&str` must be valid UTF-8 whatever the input was (an unchecked conversion in the
        // library would be undefined behaviour waiting to happen): re-validate at the boundary
        if std::str::from_utf8(self.as_bytes()).is_err() {
            INVALID_UTF8.with(|c| c.set(true));
        }
        Arg::Str(self.as_bytes().to_vec())
    }
}
impl ToArg for &[u8] {
    fn to_arg(&self) -> Arg {
        Arg::Blk(self.to_vec())
    }
}

/// Parameter types a handler can declare (C03's 15 types).
#[derive(Clone, Copy, Debug, PartialEq, Eq, Hash)]
pub enum Ty {
    U8,
    I8,
    U16,
    I16,
    U32,
    I32,
    U64,
    I64,
    Usize,
    Isize,
    F32,
    F64,
    Bool,
    Str,
    Blk,
}

pub const ALL_TYS: [Ty; 15] = [
    Ty::U8,
    Ty::I8,
    Ty::U16,
    Ty::I16,
    Ty::U32,
    Ty::I32,
    Ty::U64,
    Ty::I64,
    Ty::Usize,
    Ty::Isize,
    Ty::F32,
    Ty::F64,
    Ty::Bool,
    Ty::Str,
    Ty::Blk,
];

impl Ty {
    pub fn rust(&self) -> &'static str {
        match self {
            Ty::U8 => "u8",
            Ty::I8 => "i8",
            Ty::U16 => "u16",
            Ty::I16 => "i16",
            Ty::U32 => "u32",
            Ty::I32 => "i32",
            Ty::U64 => "u64",
            Ty::I64 => "i64",
            Ty::Usize => "usize",
            Ty::Isize => "isize",
            Ty::F32 => "f32",
            Ty::F64 => "f64",
            Ty::Bool => "bool",
            Ty::Str => "&str",
            Ty::Blk => "&[u8]",
        }
    }
    pub fn name(&self) -> &'static str {
        match self {
            Ty::U8 => "U8",
            Ty::I8 => "I8",
            Ty::U16 => "U16",
            Ty::I16 => "I16",
            Ty::U32 => "U32",
            Ty::I32 => "I32",
            Ty::U64 => "U64",
            Ty::I64 => "I64",
            Ty::Usize => "Usize",
            Ty::Isize => "Isize",
            Ty::F32 => "F32",
            Ty::F64 => "F64",
            Ty::Bool => "Bool",
            Ty::Str => "Str",
            Ty::Blk => "Blk",
        }
    }
    /// (min, max) for integer types
    pub fn int_range(&self) -> Option<(i128, i128)> {
        Some(match self {
            Ty::U8 => (0, u8::MAX as i128),
            Ty::I8 => (i8::MIN as i128, i8::MAX as i128),
            Ty::U16 => (0, u16::MAX as i128),
            Ty::I16 => (i16::MIN as i128, i16::MAX as i128),
            Ty::U32 => (0, u32::MAX as i128),
            Ty::I32 => (i32::MIN as i128, i32::MAX as i128),
            Ty::U64 => (0, u64::MAX as i128),
            Ty::I64 => (i64::MIN as i128, i64::MAX as i128),
            Ty::Usize => (0, usize::MAX as i128),
            Ty::Isize => (isize::MIN as i128, isize::MAX as i128),
            _ => return None,
        })
    }
    pub fn int_arg(&self, v: i128) -> Arg {
        match self {
            Ty::U8 => Arg::U8(v as u8),
            Ty::I8 => Arg::I8(v as i8),
            Ty::U16 => Arg::U16(v as u16),
            Ty::I16 => Arg::I16(v as i16),
            Ty::U32 => Arg::U32(v as u32),
            Ty::I32 => Arg::I32(v as i32),
            Ty::U64 => Arg::U64(v as u64),
            Ty::I64 => Arg::I64(v as i64),
            Ty::Usize => Arg::Usize(v as usize),
            Ty::Isize => Arg::Isize(v as isize),
            _ => panic!("not an integer type"),
        }
    }
}

/// Leaves of a response value as the decoder is expected to see them.
#[derive(Clone, Debug, PartialEq)]
pub enum Leaf {
    Int(i128),
    F32(u32),
    F64(u64),
    Bool(bool),
    Str(Vec<u8>),
    Chars(Vec<u8>),
    Blk(Vec<u8>),
}

/// Return types used by generated handlers.
#[derive(Clone, Copy, Debug, PartialEq, Eq)]
pub enum RetTy {
    Unit,
    U8,
    I16,
    U32,
    I64,
    F32,
    F64,
    Bool,
    Str,
    Chars,
    PairI32Bool,
    TripleU8StrF64,
}

pub const QUERY_RET_TYS: [RetTy; 11] = [
    RetTy::U8,
    RetTy::I16,
    RetTy::U32,
    RetTy::I64,
    RetTy::F32,
    RetTy::F64,
    RetTy::Bool,
    RetTy::Str,
    RetTy::Chars,
    RetTy::PairI32Bool,
    RetTy::TripleU8StrF64,
];

pub const STR_TABLE: [&str; 8] =
    ["", "a", "Hello World", "x,y;z", "new\nline", "it's", "caf\u{e9} \u{3a9}", "#15ab:?*"];
pub const CHARS_TABLE: [&str; 4] = ["ON", "DEF", "MAXimum", "A1_b"];

impl RetTy {
    pub fn rust(&self) -> &'static str {
        match self {
            RetTy::Unit => "()",
            RetTy::U8 => "u8",
            RetTy::I16 => "i16",
            RetTy::U32 => "u32",
            RetTy::I64 => "i64",
            RetTy::F32 => "f32",
            RetTy::F64 => "f64",
            RetTy::Bool => "bool",
            RetTy::Str => "&'static str",
            RetTy::Chars => "::microscpi::Characters<'static>",
            RetTy::PairI32Bool => "(i32, bool)",
            RetTy::TripleU8StrF64 => "(u8, &'static str, f64)",
        }
    }
    pub fn name(&self) -> &'static str {
        match self {
            RetTy::Unit => "Unit",
            RetTy::U8 => "U8",
            RetTy::I16 => "I16",
            RetTy::U32 => "U32",
            RetTy::I64 => "I64",
            RetTy::F32 => "F32",
            RetTy::F64 => "F64",
            RetTy::Bool => "Bool",
            RetTy::Str => "Str",
            RetTy::Chars => "Chars",
            RetTy::PairI32Bool => "PairI32Bool",
            RetTy::TripleU8StrF64 => "TripleU8StrF64",
        }
    }
    /// The leaves of the value a handler of this type returns for `seed`.
    pub fn leaves(&self, seed: u64) -> Vec<Leaf> {
        let mut v = Vec::new();
        match self {
            RetTy::Unit => {}
            RetTy::U8 => <u8 as Ret>::make(seed).leaves(&mut v),
            RetTy::I16 => <i16 as Ret>::make(seed).leaves(&mut v),
            RetTy::U32 => <u32 as Ret>::make(seed).leaves(&mut v),
            RetTy::I64 => <i64 as Ret>::make(seed).leaves(&mut v),
            RetTy::F32 => <f32 as Ret>::make(seed).leaves(&mut v),
            RetTy::F64 => <f64 as Ret>::make(seed).leaves(&mut v),
            RetTy::Bool => <bool as Ret>::make(seed).leaves(&mut v),
            RetTy::Str => <&'static str as Ret>::make(seed).leaves(&mut v),
            RetTy::Chars => <microscpi::Characters<'static> as Ret>::make(seed).leaves(&mut v),
            RetTy::PairI32Bool => <(i32, bool) as Ret>::make(seed).leaves(&mut v),
            RetTy::TripleU8StrF64 => <(u8, &'static str, f64) as Ret>::make(seed).leaves(&mut v),
        }
        v
    }
}

/// Values a recording handler can return: a pure function of a seed.
pub trait Ret: Sized {
    fn make(seed: u64) -> Self;
    fn leaves(&self, out: &mut Vec<Leaf>);
}

macro_rules! ret_int {
    ($t:ty) => {
        impl Ret for $t {
            fn make(seed: u64) -> Self {
                let r = splitmix(seed);
                match r % 8 {
                    0 => <$t>::MIN,
                    1 => <$t>::MAX,
                    2 => 0,
                    3 => (r >> 8) as $t % 100,
                    _ => (r >> 8) as $t,
                }
            }
            fn leaves(&self, out: &mut Vec<Leaf>) {
                out.push(Leaf::Int(*self as i128));
            }
        }
    };
}
ret_int!(u8);
ret_int!(i8);
ret_int!(u16);
ret_int!(i16);
ret_int!(u32);
ret_int!(i32);
ret_int!(u64);
ret_int!(i64);
ret_int!(usize);
ret_int!(isize);

impl Ret for () {
    fn make(_seed: u64) -> Self {}
    fn leaves(&self, _out: &mut Vec<Leaf>) {}
}
impl Ret for bool {
    fn make(seed: u64) -> Self {
        splitmix(seed) & 1 == 1
    }
    fn leaves(&self, out: &mut Vec<Leaf>) {
        out.push(Leaf::Bool(*self));
    }
}
impl Ret for f32 {
    fn make(seed: u64) -> Self {
        let r = splitmix(seed);
        match r % 16 {
            0 => f32::NAN,
            1 => f32::INFINITY,
            2 => f32::NEG_INFINITY,
            3 => 0.0,
            4 => -0.0,
            5 => ((r >> 8) % 1000) as f32 / 8.0,
            _ => f32::from_bits((r >> 16) as u32),
        }
    }
    fn leaves(&self, out: &mut Vec<Leaf>) {
        out.push(Leaf::F32(self.to_bits()));
    }
}
impl Ret for f64 {
    fn make(seed: u64) -> Self {
        let r = splitmix(seed);
        match r % 16 {
            0 => f64::NAN,
            1 => f64::INFINITY,
            2 => f64::NEG_INFINITY,
            3 => 0.0,
            4 => -0.0,
            5 => ((r >> 8) % 100000) as f64 / 64.0,
            _ => f64::from_bits(splitmix(r)),
        }
    }
    fn leaves(&self, out: &mut Vec<Leaf>) {
        out.push(Leaf::F64(self.to_bits()));
    }
}
impl Ret for &'static str {
    fn make(seed: u64) -> Self {
        STR_TABLE[(splitmix(seed) % STR_TABLE.len() as u64) as usize]
    }
    fn leaves(&self, out: &mut Vec<Leaf>) {
        out.push(Leaf::Str(self.as_bytes().to_vec()));
    }
}
impl Ret for microscpi::Characters<'static> {
    fn make(seed: u64) -> Self {
        microscpi::Characters(CHARS_TABLE[(splitmix(seed) % CHARS_TABLE.len() as u64) as usize])
    }
    fn leaves(&self, out: &mut Vec<Leaf>) {
        out.push(Leaf::Chars(self.0.as_bytes().to_vec()));
    }
}
impl<A: Ret, B: Ret> Ret for (A, B) {
    fn make(seed: u64) -> Self {
        (A::make(seed ^ 1), B::make(seed ^ 2))
    }
    fn leaves(&self, out: &mut Vec<Leaf>) {
        self.0.leaves(out);
        self.1.leaves(out);
    }
}
impl<A: Ret, B: Ret, C: Ret> Ret for (A, B, C) {
    fn make(seed: u64) -> Self {
        (A::make(seed ^ 1), B::make(seed ^ 2), C::make(seed ^ 3))
    }
    fn leaves(&self, out: &mut Vec<Leaf>) {
        self.0.leaves(out);
        self.1.leaves(out);
        self.2.leaves(out);
    }
}

/// What a failing handler returns.
#[derive(Clone, Copy, Debug, PartialEq)]
pub enum Fail {
    Builtin(u8),
    Custom(i16, &'static str),
}

pub const BUILTIN_FAILS: [microscpi::Error; 8] = [
    microscpi::Error::ExecutionError,
    microscpi::Error::DataOutOfRange,
    microscpi::Error::HardwareError,
    microscpi::Error::SettingsConflict,
    microscpi::Error::TooMuchData,
    microscpi::Error::UndefinedHeader,
    microscpi::Error::QueryError,
    microscpi::Error::SyntaxError,
];

impl Fail {
    pub fn error(&self) -> microscpi::Error {
        match self {
            Fail::Builtin(i) => BUILTIN_FAILS[*i as usize % BUILTIN_FAILS.len()],
            Fail::Custom(n, t) => microscpi::Error::Custom(*n, t),
        }
    }
}

pub fn ret_seed(h: u16, args: &[Arg]) -> u64 {
    splitmix(args_hash(args) ^ ((h as u64) << 48))
}

/// Records `Enter`, returns the seed that determines the handler's result.
pub fn enter(h: u16, args: &[&dyn ToArg]) -> u64 {
    exempt(|| {
        let a: Vec<Arg> = args.iter().map(|x| x.to_arg()).collect();
        let seed = ret_seed(h, &a);
        LOG.with(|l| l.borrow_mut().push(Ev::Enter { h, args: a }));
        seed
    })
}

/// Records `Exit` and produces the handler's result.
pub fn finish<T: Ret>(h: u16, seed: u64, fail: Option<Fail>) -> Result<T, microscpi::Error> {
    match fail {
        Some(f) => {
            push(Ev::Exit { h, ok: false });
            Err(f.error())
        }
        None => {
            push(Ev::Exit { h, ok: true });
            Ok(T::make(seed))
        }
    }
}

// ---------------------------------------------------------------------------
// rendering (witness files, samples)
// ---------------------------------------------------------------------------

pub fn esc(bytes: &[u8]) -> String {
    let mut s = String::new();
    for &b in bytes {
        match b {
            b'\n' => s.push_str("\\n"),
            b'\r' => s.push_str("\\r"),
            b'\t' => s.push_str("\\t"),
            b'\\' => s.push_str("\\\\"),
            0x20..=0x7e => s.push(b as char),
            _ => s.push_str(&format!("\\x{:02x}", b)),
        }
    }
    s
}

impl Arg {
    pub fn show(&self) -> String {
        match self {
            Arg::F32(b) => format!("F32({:e}/0x{:08x})", f32::from_bits(*b), b),
            Arg::F64(b) => format!("F64({:e}/0x{:016x})", f64::from_bits(*b), b),
            Arg::Str(b) => format!("Str(\"{}\")", esc(b)),
            Arg::Blk(b) => format!("Blk(\"{}\")", esc(b)),
            other => format!("{:?}", other),
        }
    }
}

impl Ev {
    pub fn show(&self) -> String {
        match self {
            Ev::Enter { h, args } => {
                format!("Enter(h{}; {})", h, args.iter().map(|a| a.show()).collect::<Vec<_>>().join(", "))
            }
            Ev::Exit { h, ok } => format!("Exit(h{}, {})", h, if *ok { "ok" } else { "err" }),
            Ev::Error { num, text, .. } => format!("Error({}, \"{}\")", num, esc(text.as_bytes())),
            Ev::Write(b) => format!("Write(\"{}\")", esc(b)),
            Ev::Flush => "Flush".into(),
            Ev::Read { cap, n } => format!("Read(cap={}, n={})", cap, n),
            Ev::AWrite(b) => format!("AWrite(\"{}\")", esc(b)),
            Ev::AFlush => "AFlush".into(),
            Ev::AErr { token, call, kind } => format!("AErr(token={}, call={}, kind={})", token, call, kind),
            Ev::Mark(i) => format!("Mark({})", i),
            Ev::RunRet { given, rest, suffix } => format!("RunRet(given={}, rest={}, suffix={})", given, rest, suffix),
            Ev::ProcRet { ok, token } => format!("ProcRet(ok={}, token={})", ok, token),
            Ev::Out(b) => format!("Out(\"{}\")", esc(b)),
        }
    }
}

pub fn show_log(log: &[Ev]) -> Vec<String> {
    log.iter().map(|e| e.show()).collect()
}
