//! C05 — no input can crash or hang the interpreter.
//!
//! Oracle per execution: no panic escapes run/process, the task finishes
//! within its poll budget (and within the CPU watchdog), run returns a suffix
//! of its input, and the number of handler/error events is bounded by the
//! number of input bytes (no runaway).

use std::collections::HashSet;

use super::{hex, panic_sig, Ctx};
use crate::drive::{IfaceDesc, ProcSpec, RunOut, RunSpec, WriterKind};
use crate::ev::{esc, Ev};
use crate::out::{PropResult, Violation, J};
use crate::par;
use crate::prng::{fnv, Rng};
use crate::wl::{Gen, GenOpts, LitOpts, Style, ALL_FAULTS};

/// Class-representative alphabet: two mnemonic letters that exist in the compact
/// interface (A, B), one that does not (Z), the radix / exponent letters (E, H, Q),
/// underscore, every punctuation character of the grammar, digits 0 (block length
/// zero, leading zeros, boolean), 1, 8 (not an octal digit) and 9, lower-case a, e, h (case
/// folding of mnemonics, exponent and radix letters), blank, newline, a UTF-8 continuation
/// byte (0x80) and a UTF-8 lead byte (0xC3).
pub const ALPHABET: [u8; 29] = [
    b'A', b'B', b'Z', b':', b';', b',', b'?', b'*', b'#', b'"', b'\'', b'.', b'+', b'-', b'E', b'H', b'Q', b'_', b'0', b'1', b'8', b'9', b'a',
    b'e', b'h', b' ', b'\n', 0x80, 0xC3,
];

#[derive(Default)]
struct Acc {
    res: PropResult,
    panics: u64,
    calls: u64,
    errors: u64,
    by_kind: std::collections::BTreeMap<String, u64>,
    ns: HashSet<usize>,
    caps: HashSet<String>,
    distinct: HashSet<u64>,
    max_len: usize,
    toomuch: u64,
}

fn cfg_desc(kind: &str, w: Option<WriterKind>, n: usize, chunks: &[usize], pend: u64) -> J {
    J::obj(vec![
        ("api", J::s(kind)),
        ("writer", J::s(format!("{:?}", w))),
        ("n", n.into()),
        ("chunks", J::Arr(chunks.iter().take(64).map(|c| J::Int(if *c == usize::MAX { -1 } else { *c as i64 })).collect())),
        ("pend_seed", pend.into()),
    ])
}

fn judge(acc: &mut Acc, iface: &IfaceDesc, inputs: &[&[u8]], cfg: J, out: &RunOut) {
    acc.res.evaluations += 1;
    let total: usize = inputs.iter().map(|i| i.len()).sum();
    if acc.res.samples.len() < 2 && total > 3 && !out.log.is_empty() {
        let c = cfg.clone();
        acc.res.sample(|| J::obj(vec![("iface", J::s(iface.name)), ("inputs", J::Arr(inputs.iter().map(|i| J::s(esc(&i[..i.len().min(120)]))).collect())), ("config", c), ("events", J::strs(out.log.iter().take(8).map(|e| e.show()))), ("panic", J::s(format!("{:?}", out.panic)))]));
    }
    let mut viol: Option<(String, String)> = None;
    if let Some(p) = &out.panic {
        if out.harness_abort() {
            // runaway transport calls after an error are C10's clause; a missing
            // instantiation is a harness error
            if !p.contains("transport called") {
                acc.res.inconclusive = Some(format!("harness abort: {}", p));
            }
        }
        else {
            acc.panics += 1;
            viol = Some((panic_sig(p), format!("panic escaped the library: {}", p)));
        }
    }
    else if out.stuck {
        viol = Some(("hang/poll-budget".into(), "the task kept returning Pending beyond its poll budget".into()));
    }
    let mut events = 0usize;
    for e in &out.log {
        match e {
            Ev::Enter { .. } => {
                events += 1;
                acc.calls += 1;
            }
            Ev::Error { num, .. } => {
                events += 1;
                acc.errors += 1;
                if *num == -223 {
                    acc.toomuch += 1;
                }
            }
            Ev::RunRet { given, rest, suffix } => {
                if viol.is_none() && (!*suffix || rest > given) {
                    viol = Some(("run-return-not-a-suffix".into(), format!("run returned a slice that is not a suffix of its input (given {}, rest {})", given, rest)));
                }
            }
            _ => {}
        }
    }
    if viol.is_none() && events > total + 1 {
        viol = Some(("runaway".into(), format!("{} handler/error events for {} input bytes", events, total)));
    }
    if let Some((sig, summary)) = viol {
        let w = J::obj(vec![
            ("iface", J::s(iface.name)),
            ("inputs", J::Arr(inputs.iter().map(|i| J::s(esc(i))).collect())),
            ("inputs_hex", J::Arr(inputs.iter().map(|i| J::s(hex(i))).collect())),
            ("config", cfg),
            ("log_tail", J::strs(out.log.iter().rev().take(12).rev().map(|e| e.show()))),
        ]);
        acc.res.add_violation(Violation { sig, summary, witness: w });
    }
}

const RUN_WRITERS: [WriterKind; 10] = [
    WriterKind::Rec(None),
    WriterKind::Rec(Some(0)),
    WriterKind::Rec(Some(1)),
    WriterKind::Rec(Some(3)),
    WriterKind::Heapless(0),
    WriterKind::Heapless(1),
    WriterKind::Heapless(2),
    WriterKind::Heapless(3),
    WriterKind::Heapless(8),
    WriterKind::Heapless(64),
];

fn exhaust_one(acc: &mut Acc, iface: &IfaceDesc, s: &[u8], ones: &[usize], max_n: usize) {
    par::case_begin(s, [0, 0, 0, 0]);
    if max_n == 0 {
        // deepest level of the thorough enumeration: three configurations only
        let out = (iface.run)(&RunSpec { inputs: &[s], writer: WriterKind::Heapless(2), pend_seed: 0 });
        judge(acc, iface, &[s], cfg_desc("run", Some(WriterKind::Heapless(2)), 0, &[], 0), &out);
        for n in [3usize, 8] {
            let out = (iface.process)(&ProcSpec { stream: s, n, chunks: &[], pend_seed: 0, fault_at: None });
            judge(acc, iface, &[s], cfg_desc("process", None, n, &[], 0), &out);
        }
        par::case_end();
        return;
    }
    for w in RUN_WRITERS {
        let out = (iface.run)(&RunSpec { inputs: &[s], writer: w, pend_seed: 0 });
        judge(acc, iface, &[s], cfg_desc("run", Some(w), 0, &[], 0), &out);
    }
    for n in 1..=max_n {
        for bytewise in [false, true] {
            let chunks: &[usize] = if bytewise { &ones[..s.len()] } else { &[] };
            let out = (iface.process)(&ProcSpec { stream: s, n, chunks, pend_seed: 0, fault_at: None });
            judge(acc, iface, &[s], cfg_desc("process", None, n, chunks, 0), &out);
        }
    }
    par::case_end();
}

fn exhaust_shard(iface: &IfaceDesc, prefix: &[u8], max_len: usize, max_n: usize, deep_reduced: bool) -> Acc {
    let mut acc = Acc::default();
    let ones = vec![1usize; max_len + 1];
    // all strings prefix·t with |prefix·t| <= max_len
    let mut s: Vec<u8> = prefix.to_vec();
    let mut idx: Vec<usize> = Vec::new();
    let mut count = 0u64;
    loop {
        // thorough: strings of the maximal length get the reduced configuration set
        let n_here = if deep_reduced && s.len() == max_len { 0 } else { max_n };
        exhaust_one(&mut acc, iface, &s, &ones, n_here);
        count += 1;
        // next string in DFS order
        if s.len() < max_len {
            s.push(ALPHABET[0]);
            idx.push(0);
        }
        else {
            loop {
                match idx.pop() {
                    None => {
                        acc.res.distinct = count;
                        acc.max_len = max_len;
                        return acc;
                    }
                    Some(i) => {
                        s.pop();
                        if i + 1 < ALPHABET.len() {
                            s.push(ALPHABET[i + 1]);
                            idx.push(i + 1);
                            break;
                        }
                    }
                }
            }
        }
    }
}

fn mutate(rng: &mut Rng, mut b: Vec<u8>) -> Vec<u8> {
    let k = rng.below(4);
    for _ in 0..k {
        if b.is_empty() {
            break;
        }
        match rng.below(8) {
            0 => {
                let i = rng.below(b.len());
                b[i] ^= 1 << rng.below(8);
            }
            1 => {
                let i = rng.below(b.len() + 1);
                b.truncate(i);
            }
            2 => {
                let i = rng.below(b.len());
                b.insert(i, *rng.pick(&ALPHABET));
            }
            3 => {
                let i = rng.below(b.len());
                b.remove(i);
            }
            4 => {
                // lying block / digits: bump a digit
                if let Some(i) = b.iter().position(|c| c.is_ascii_digit()) {
                    b[i] = b'0' + rng.below(10) as u8;
                }
            }
            5 => {
                // splice a piece of itself elsewhere
                let i = rng.below(b.len());
                let j = rng.below(b.len());
                let (i, j) = (i.min(j), i.max(j));
                let piece: Vec<u8> = b[i..j].to_vec();
                let at = rng.below(b.len());
                for (k, x) in piece.into_iter().enumerate() {
                    b.insert(at + k, x);
                }
            }
            6 => {
                let i = rng.below(b.len());
                b[i] = rng.byte();
            }
            _ => {
                let i = rng.below(b.len());
                b.insert(i, b'\n');
            }
        }
    }
    b
}

pub fn random_chunks(rng: &mut Rng, len: usize) -> Vec<usize> {
    match rng.below(6) {
        0 => vec![],
        1 => vec![1; len],
        2 => vec![usize::MAX; len + 2],
        _ => {
            let mut v = Vec::new();
            let mut left = len;
            while left > 0 {
                if rng.chance(1, 6) {
                    v.push(0);
                    continue;
                }
                let c = rng.range(1, left.min(9));
                v.push(c);
                left -= c;
            }
            v
        }
    }
}

fn random_shard(ctx: &Ctx, ifaces: &[&'static IfaceDesc], shard: usize, cases: u64) -> Acc {
    let mut acc = Acc::default();
    let mut rng = Rng::fork(ctx.seed, 0xC05_0000 + shard as u64);
    for case in 0..cases {
        let iface = *rng.pick(ifaces);
        let gen = Gen::new(
            iface,
            GenOpts { lit: LitOpts { payload_newline: true, wild_payload: true, max_payload: 20 }, max_units: 4, ..Default::default() },
        );
        let mut stream: Vec<u8> = Vec::new();
        let msgs = rng.range(1, 4);
        let mut pieces: Vec<Vec<u8>> = Vec::new();
        for _ in 0..msgs {
            let m = if rng.chance(1, 3) {
                let f = *rng.pick(&ALL_FAULTS);
                gen.faulty_msg(f, rng.below(3) as u8, &mut rng).unwrap_or_else(|| gen.valid_msg(&mut rng))
            }
            else {
                gen.valid_msg(&mut rng)
            };
            let mut st = Style::plain();
            st.seed = rng.next();
            st.case = rng.below(3) as u8;
            let b = m.render(&st);
            let b = if rng.chance(1, 2) { mutate(&mut rng, b) } else { b };
            stream.extend_from_slice(&b);
            pieces.push(b);
        }
        acc.distinct.insert(fnv(&stream));
        acc.max_len = acc.max_len.max(stream.len());
        par::case_begin(&stream, [shard as u64, case, 0, 0]);
        // run: whole buffer, and message by message
        let w = match rng.below(4) {
            0 => WriterKind::Rec(None),
            1 => WriterKind::Rec(Some(rng.below(65))),
            _ => WriterKind::Heapless(*rng.pick(&crate::drive::HEAPLESS_CAPS)),
        };
        let pend = if rng.chance(1, 2) { rng.next() | 1 } else { 0 };
        let out = (iface.run)(&RunSpec { inputs: &[&stream], writer: w, pend_seed: pend });
        acc.caps.insert(format!("{:?}", w));
        *acc.by_kind.entry("random/run-one-buffer".into()).or_default() += 1;
        judge(&mut acc, iface, &[&stream], cfg_desc("run", Some(w), 0, &[], pend), &out);
        let refs: Vec<&[u8]> = pieces.iter().map(|p| &p[..]).collect();
        let out = (iface.run)(&RunSpec { inputs: &refs, writer: w, pend_seed: pend });
        *acc.by_kind.entry("random/run-per-message".into()).or_default() += 1;
        judge(&mut acc, iface, &refs, cfg_desc("run", Some(w), 0, &[], pend), &out);
        // process
        let ns = (iface.ns)();
        for _ in 0..2 {
            let n = *rng.pick(&ns);
            let chunks = random_chunks(&mut rng, stream.len());
            let out = (iface.process)(&ProcSpec { stream: &stream, n, chunks: &chunks, pend_seed: pend, fault_at: None });
            acc.ns.insert(n);
            *acc.by_kind.entry("random/process".into()).or_default() += 1;
            judge(&mut acc, iface, &[&stream], cfg_desc("process", None, n, &chunks, pend), &out);
        }
        par::case_end();
    }
    acc
}

fn long_inputs() -> Vec<(String, Vec<u8>)> {
    let mut v: Vec<(String, Vec<u8>)> = Vec::new();
    let rep = |s: &str, n: usize| s.repeat(n).into_bytes();
    v.push(("mnemonic-200".into(), [rep("A", 200), b"\n".to_vec()].concat()));
    v.push(("levels-40".into(), [rep("A:", 40), b"B\n".to_vec()].concat()));
    v.push(("semicolons-10000".into(), [rep(";", 10000), b"\n".to_vec()].concat()));
    v.push(("units-2000".into(), [rep("A;", 2000), b"\n".to_vec()].concat()));
    v.push(("colons-5000".into(), [rep(":", 5000), b"\n".to_vec()].concat()));
    for k in [10usize, 11, 12, 40, 1000] {
        let mut s = b"N ".to_vec();
        for i in 0..k {
            if i > 0 {
                s.push(b',');
            }
            s.extend_from_slice(b"1");
        }
        s.push(b'\n');
        v.push((format!("params-{}", k), s));
    }
    v.push(("digits-400".into(), [b"A:B ".to_vec(), rep("9", 400), b"\n".to_vec()].concat()));
    v.push(("exp-huge".into(), b"N 1,1E999999999999999999999\n".to_vec()));
    v.push(("hex-200".into(), [b"N? #H".to_vec(), rep("F", 200), b",1\n".to_vec()].concat()));
    v.push(("string-5000".into(), [b"A:A \"".to_vec(), rep("x", 5000), b"\"\n".to_vec()].concat()));
    v.push(("string-open-5000".into(), [b"A:A \"".to_vec(), rep("x", 5000), b"\n".to_vec()].concat()));
    v.push(("block-len-999999999".into(), b"C #9999999999abc\n".to_vec()));
    v.push(("block-len-overflow".into(), b"C #999999999999999999999\n".to_vec()));
    v.push(("block-exact".into(), [b"C #41000".to_vec(), rep("\n", 1000), b"\n".to_vec()].concat()));
    v.push(("whitespace-5000".into(), [rep(" ", 5000), b"A\n".to_vec()].concat()));
    v.push(("newlines-5000".into(), rep("\n", 5000)));
    v.push(("queries-500".into(), rep("B:C?;", 500).into_iter().chain(b"\n".iter().copied()).collect()));
    v.push(("long-answer".into(), b"B:C?\n".to_vec()));
    v.push(("err-queries".into(), rep("ZZ\nSYST:ERR?\n", 50)));
    v.push(("faults-600".into(), rep("ZZ\n", 600)));
    v.push(("faults-70000".into(), rep("Z\n", 70000)));
    v.push(("exec-faults-600".into(), rep("A:B\nN 1\nFAIL\n", 200)));
    for e in ["127", "128", "-128", "-129", "255", "256", "32767", "-32768", "32768", "65535", "65536", "-65536", "2147483647", "-2147483648", "2147483648", "4294967296", "9223372036854775807", "-9223372036854775808", "18446744073709551616"] {
        v.push((format!("exponent-{}", e), format!("N 1E{},1e{}\nA:B 1E{}\nN? 1E{},2\nA:B:C? 1.5E{}\n", e, e, e, e, e).into_bytes()));
    }
    v.push(("valid-70000".into(), rep("A\n", 70000)));
    v.push(("queries-70000".into(), rep("A?\n", 70000)));
    v.push(("commas-5000".into(), [b"N ".to_vec(), rep(",", 5000), b"\n".to_vec()].concat()));
    v.push(("hashes-5000".into(), [b"C ".to_vec(), rep("#", 5000), b"\n".to_vec()].concat()));
    v.push(("quotes-5001".into(), [b"A:A ".to_vec(), rep("\"", 5001), b"\n".to_vec()].concat()));
    v.push(("question-marks-5000".into(), [b"N".to_vec(), rep("?", 5000), b"\n".to_vec()].concat()));
    v.push(("stars-5000".into(), [rep("*", 5000), b"\n".to_vec()].concat()));
    v.push(("signed-radix".into(), b"N -#H10,+#Q7\nN #H-10,#B+1\nN? -#B1,#HFFFFFFFFFFFFFFFFFFFFFFFFFFFFFFFFFF\n".to_vec()));
    v.push(("block-width9-len0".into(), b"C #9000000000\nC #9000000003abc\nC #10\nC #0\n".to_vec()));
    // a very long run of one character in parameter position and in header position (deep
    // recursion or quadratic behaviour in a sub-parser shows as a stack overflow or a time-out)
    for c in [b'(', b')', b'[', b'{', b'<', b'@', b'!', b'$', b'%', b'&', b'/', b'=', b'^', b'~', b'|', b'\\', b'`', b'-', b'+', b'.', b'E', b'e', b'0', b'9', b'\'', b' ', 0x80u8, 0xC3u8] {
        let mut s = b"A:A ".to_vec();
        s.extend(std::iter::repeat(c).take(200_000));
        s.push(b'\n');
        v.push((format!("param-run-0x{:02x}", c), s));
    }
    for c in [b'(', b'[', b'A', b'_', b'1', b'?', b'*', b'#', b'"', b','] {
        let mut s: Vec<u8> = std::iter::repeat(c).take(200_000).collect();
        s.push(b'\n');
        v.push((format!("header-run-0x{:02x}", c), s));
    }
    let mut nested = b"A:A ".to_vec();
    for _ in 0..50_000 {
        nested.extend_from_slice(b"(@1,");
    }
    nested.push(b'\n');
    v.push(("nested-expression-50000".into(), nested));
    v.push(("nonascii".into(), (0x80u8..=0xff).chain(std::iter::once(b'\n')).collect()));
    v.push(("all-bytes".into(), (0u8..=255).chain(std::iter::once(b'\n')).collect()));
    v
}

fn long_shard(ifaces: &[&'static IfaceDesc], k: usize) -> Acc {
    let mut acc = Acc::default();
    let inputs = long_inputs();
    let (name, input) = &inputs[k];
    acc.distinct.insert(fnv(input));
    acc.max_len = input.len();
    // the CPU-time watchdog is armed per execution (one `run` or `process` call over the whole
    // input), not per input: the inputs are long and there are many configurations
    for iface in ifaces.iter().take(3) {
        for w in [WriterKind::Rec(None), WriterKind::Rec(Some(7)), WriterKind::Heapless(0), WriterKind::Heapless(16), WriterKind::Heapless(4096)] {
            for pend in [0u64, 77] {
                par::case_begin(input, [k as u64, 0, 0, 0]);
                let out = (iface.run)(&RunSpec { inputs: &[input], writer: w, pend_seed: pend });
                par::case_end();
                *acc.by_kind.entry(format!("long/{}", name)).or_default() += 1;
                judge(&mut acc, iface, &[input], cfg_desc("run", Some(w), 0, &[], pend), &out);
            }
        }
        for n in (iface.ns)() {
            for chunks in [vec![], vec![1usize; input.len()], vec![usize::MAX; 8], vec![7usize; input.len() / 7 + 1]] {
                par::case_begin(input, [k as u64, n as u64, chunks.len() as u64, 0]);
                let out = (iface.process)(&ProcSpec { stream: input, n, chunks: &chunks, pend_seed: 0, fault_at: None });
                par::case_end();
                acc.ns.insert(n);
                *acc.by_kind.entry(format!("long/{}", name)).or_default() += 1;
                judge(&mut acc, iface, &[input], cfg_desc("process", None, n, &chunks[..chunks.len().min(4)], 0), &out);
            }
        }
    }
    acc
}

fn canary(mini: &IfaceDesc) -> Result<(), String> {
    // the oracle must reject a fabricated panic, a non-suffix return and a runaway
    let mut acc = Acc::default();
    let mut out = RunOut::default();
    out.panic = Some("boom @ /repo/microscpi/src/parser.rs:1:1".into());
    judge(&mut acc, mini, &[b"A\n"], J::Null, &out);
    let mut out = RunOut::default();
    out.log.push(Ev::RunRet { given: 2, rest: 1, suffix: false });
    judge(&mut acc, mini, &[b"A\n"], J::Null, &out);
    let mut out = RunOut::default();
    for _ in 0..5 {
        out.log.push(Ev::Error { num: -113, text: "x".into(), dbg: "x".into() });
    }
    judge(&mut acc, mini, &[b"A\n"], J::Null, &out);
    if acc.res.violation_count != 3 {
        return Err(format!("C05 canary: oracle rejected {} of 3 fabricated bad executions", acc.res.violation_count));
    }
    Ok(())
}

pub fn run(ctx: &Ctx) -> PropResult {
    let mini = ctx.iface("mini");
    let mut res = PropResult::default();
    if let Err(e) = canary(mini) {
        res.inconclusive = Some(e);
        return res;
    }
    let max_len = if ctx.tiny { 2 } else if ctx.thorough { 6 } else { 4 };
    let max_n = if ctx.tiny { 5 } else { 16 };
    let a = ALPHABET.len();
    // shards: one per 2-symbol prefix, plus one for the strings of length < 2
    let n_ex = a * a + 1;
    let rand_shards = if ctx.tiny { 4usize } else { 64usize };
    let rand_cases = if ctx.tiny { 25 } else { ctx.scaled(if ctx.thorough { 100_000 } else { 8_000 }) };
    let longs = if ctx.tiny { 0 } else { long_inputs().len() };
    let mut all: Vec<&'static IfaceDesc> = ctx.built(&["mini", "pzoo"]);
    all.extend(ctx.random_ifaces());
    if ctx.tiny {
        all.truncate(6);
    }
    let long_ifaces: Vec<&'static IfaceDesc> = ctx.built(&["mini", "pzoo", "qdev2"]);
    let total = n_ex + rand_shards + longs;
    let accs = par::run_shards(
        total,
        ctx.threads,
        |i| {
            if let Some((k, of)) = ctx.shard {
                if i % of != k {
                    return Acc::default();
                }
            }
            if i < a * a {
                exhaust_shard(mini, &[ALPHABET[i / a], ALPHABET[i % a]], max_len, max_n, ctx.thorough && !ctx.tiny)
            }
            else if i == a * a {
                // lengths 0 and 1
                let mut acc = Acc::default();
                let ones = vec![1usize; 2];
                exhaust_one(&mut acc, mini, b"", &ones, max_n);
                for c in ALPHABET {
                    exhaust_one(&mut acc, mini, &[c], &ones, max_n);
                }
                acc.res.distinct = 1 + a as u64;
                acc
            }
            else if i < n_ex + rand_shards {
                random_shard(ctx, &all, i - n_ex, rand_cases)
            }
            else {
                long_shard(&long_ifaces, i - n_ex - rand_shards)
            }
        },
        |h| ctx.on_hang(h),
    );
    let mut panics = 0;
    let mut calls = 0;
    let mut errors = 0;
    let mut toomuch = 0;
    let mut by_kind = std::collections::BTreeMap::new();
    let mut ns = HashSet::new();
    let mut caps = HashSet::new();
    let mut ex_exec = 0u64;
    let mut ex_strings = 0u64;
    let mut max_in = 0usize;
    for (i, acc) in accs.into_iter().enumerate() {
        if i < n_ex {
            ex_exec += acc.res.evaluations;
            ex_strings += acc.res.distinct;
        }
        else {
            max_in = max_in.max(acc.max_len);
        }
        panics += acc.panics;
        calls += acc.calls;
        errors += acc.errors;
        toomuch += acc.toomuch;
        for (k, v) in acc.by_kind {
            *by_kind.entry(k).or_insert(0u64) += v;
        }
        ns.extend(acc.ns);
        caps.extend(acc.caps);
        let mut r = acc.res;
        r.distinct += acc.distinct.len() as u64;
        res.merge(r);
    }
    res.rule = format!(
        "exhaustive: every string of length <= {} over the {}-symbol class alphabet through run (10 writers incl. capacities 0,1,2,3,8,64) and process::<N> for N=1..={} (one read and byte-wise; in the thorough tier the strings of the maximal length get 3 configurations); random: structured messages (valid, each fault kind, payload newlines) mutated, through run (whole / per message) and process with random N, chunking and Pending pattern over {} interfaces; long: {} hand-built extreme inputs. distinct = distinct input byte strings",
        max_len, a, max_n, all.len(), longs
    );
    res.cov("exhaustive_strings", ex_strings);
    res.cov("exhaustive_max_len", max_len);
    res.cov("exhaustive_executions", ex_exec);
    res.cov("exhaustive", true);
    res.cov("panics_seen", panics);
    res.cov("handler_calls_observed", calls);
    res.cov("errors_observed", errors);
    res.cov("too_much_data_errors_observed", toomuch);
    res.cov("executions_by_kind", J::Obj(by_kind.into_iter().map(|(k, v)| (k, J::Int(v as i64))).collect()));
    let mut nsv: Vec<usize> = ns.into_iter().collect();
    nsv.sort();
    res.cov("process_n_values_random_and_long", J::Arr(nsv.into_iter().map(|n| J::Int(n as i64)).collect()));
    res.cov("writers_random", J::strs(caps.into_iter()));
    res.cov("max_input_len", max_in);
    res.samples.truncate(5);
    let described: Vec<J> = vec![
        J::s("run(\"A:B 1;C\\n\") with heapless::Vec<u8,2>"),
        J::s("process::<3>(\"B:C?\\n\") byte-wise"),
        J::s(format!("long inputs: {}", long_inputs().iter().map(|x| x.0.clone()).collect::<Vec<_>>().join(", "))),
    ];
    res.samples.extend(described.into_iter().take(1));
    res.assumptions = vec![
        "handlers do not panic".into(),
        "the class alphabet represents the distinctions the grammar makes; bytes outside it are reached only by the random and long layers".into(),
    ];
    if (calls == 0 || errors == 0) && ctx.shard.is_none() {
        res.inconclusive = Some("observed no handler calls or no errors: the workload did not reach the library".into());
    }
    res
}
