//! C08 — strings and blocks are transparent containers, also across reads.
//!
//! Oracles: (1) generator-side expectation: every unit of the message
//! executes, payload bytes arrive verbatim, no error; (2) twin: the same
//! message with every payload newline replaced by 'x' must produce the same
//! handler sequence (payload bytes aside).

use std::collections::{BTreeMap, HashSet};

use super::c05::random_chunks;
use super::{hex, Ctx};
use crate::drive::{IfaceDesc, ProcSpec, RunSpec, WriterKind};
use crate::ev::{esc, Arg, Ty};
use crate::out::{PropResult, Violation, J};
use crate::par;
use crate::prng::{fnv, Rng};
use crate::sem::{check_streams, streams, Sem, Streams};
use crate::wl::{Expect, Gen, GenOpts, LitOpts, MsgAst, Style};

#[derive(Default)]
struct Acc {
    res: PropResult,
    distinct: HashSet<u64>,
    by_delivery: BTreeMap<&'static str, u64>,
    payload_bytes_blk: HashSet<u8>,
    payload_chars_str: HashSet<char>,
    msgs_with_payload_newline: u64,
    relative_after_payload_newline: u64,
    block_widths: HashSet<usize>,
    splits_at_payload_newline: u64,
}

fn nl_to_x(b: &[u8]) -> Vec<u8> {
    b.iter().map(|c| if *c == b'\n' { b'x' } else { *c }).collect()
}

fn twin_of(ast: &MsgAst) -> MsgAst {
    let mut t = ast.clone();
    for u in &mut t.units {
        for l in &mut u.lits {
            l.text = nl_to_x(&l.text);
        }
        for e in &mut u.expects {
            if let Expect::Call { args, .. } = e {
                for a in args.iter_mut() {
                    match a {
                        Arg::Str(b) | Arg::Blk(b) => *b = nl_to_x(b),
                        _ => {}
                    }
                }
            }
        }
    }
    t
}

fn strip_payload(s: &Streams) -> Vec<Sem> {
    s.ce.iter()
        .map(|x| match x {
            Sem::Call { h, args, ok } => Sem::Call {
                h: *h,
                args: args
                    .iter()
                    .map(|a| match a {
                        Arg::Str(b) => Arg::Str(nl_to_x(b)),
                        Arg::Blk(b) => Arg::Blk(nl_to_x(b)),
                        o => o.clone(),
                    })
                    .collect(),
                ok: *ok,
            },
            o => o.clone(),
        })
        .collect()
}

struct Case<'a> {
    iface: &'a IfaceDesc,
    bytes: Vec<u8>,
    expects: Vec<Expect>,
    twin_bytes: Vec<u8>,
    twin_expects: Vec<Expect>,
    feature: &'static str,
}

fn judge(acc: &mut Acc, c: &Case, delivery: &'static str, cfg: J, got: &Streams, twin_got: Option<&Streams>) {
    acc.res.evaluations += 1;
    *acc.by_delivery.entry(delivery).or_default() += 1;
    acc.res.sample(|| J::obj(vec![("iface", J::s(c.iface.name)), ("message", J::s(esc(&c.bytes))), ("config", cfg.clone()), ("observed", J::strs(got.show()))]));
    let mut bad: Option<(String, String)> = None;
    if let Err(e) = check_streams(&c.expects, got) {
        let clause = if got.errs() > 0 { "spurious-error" } else if got.calls() < c.expects.iter().filter(|e| matches!(e, Expect::Call { .. })).count() { "unit-not-executed" } else { "payload-or-dispatch-differs" };
        bad = Some((format!("{}/{}/{}", clause, c.feature, if delivery.starts_with("run") { "run" } else { "process" }), e));
    }
    else if let Some(t) = twin_got {
        if strip_payload(got) != strip_payload(t) || got.out != t.out {
            bad = Some((format!("twin-differs/{}/{}", c.feature, if delivery.starts_with("run") { "run" } else { "process" }), "handler sequence differs from the message without the embedded newline".into()));
        }
    }
    if let Some((sig, detail)) = bad {
        acc.res.add_violation(Violation {
            sig,
            summary: format!("\"{}\" via {}: {}", esc(&c.bytes[..c.bytes.len().min(100)]), delivery, detail),
            witness: J::obj(vec![
                ("iface", J::s(c.iface.name)),
                ("decls", J::strs(c.iface.decls.iter().map(|x| x.cmd.to_string()))),
                ("message", J::s(esc(&c.bytes))),
                ("message_hex", J::s(hex(&c.bytes))),
                ("config", cfg),
                ("observed", J::strs(got.show())),
                ("expected", J::strs(c.expects.iter().map(|e| format!("{:?}", e)))),
            ]),
        });
    }
}

fn run_case(acc: &mut Acc, c: &Case, rng: &mut Rng, exhaustive_comps: bool) {
    acc.distinct.insert(fnv(&c.bytes));
    par::case_begin(&c.bytes, [0, 0, 0, 0]);
    // twin executions (reference for the metamorphic clause)
    let twin_run = (c.iface.run)(&RunSpec { inputs: &[&c.twin_bytes], writer: WriterKind::Rec(None), pend_seed: 0 });
    let twin_streams = streams(&twin_run.log);
    let twin_ok = !twin_run.crashed() && check_streams(&c.twin_expects, &twin_streams).is_ok();
    // run, whole
    let out = (c.iface.run)(&RunSpec { inputs: &[&c.bytes], writer: WriterKind::Rec(None), pend_seed: 0 });
    let mut resp_len = 0usize;
    if out.crashed() {
        acc.res.skipped_crash += 1;
    }
    else {
        let s = streams(&out.log);
        resp_len = s.out.len();
        judge(acc, c, "run-whole", J::obj(vec![("delivery", J::s("run"))]), &s, if twin_ok { Some(&twin_streams) } else { None });
    }
    // process: N must hold the message and its responses (oversized responses are C05's workload)
    let ns: Vec<usize> = (c.iface.ns)().into_iter().filter(|n| *n >= c.bytes.len() && *n >= resp_len).collect();
    if ns.is_empty() {
        par::case_end();
        return;
    }
    let len = c.bytes.len();
    let nl_positions: Vec<usize> = c.bytes[..len - 1].iter().enumerate().filter(|(_, b)| **b == b'\n').map(|(i, _)| i).collect();
    let mut plans: Vec<(&'static str, usize, Vec<usize>, u64)> = Vec::new();
    let tight = ns[0];
    let big = *ns.last().unwrap();
    plans.push(("process-one-read", big, vec![], 0));
    plans.push(("process-byte-wise", big, vec![1; len], 0));
    plans.push(("process-byte-wise-tight-N", tight, vec![1; len], 0));
    plans.push(("process-one-read-tight-N", tight, vec![], 0));
    for p in &nl_positions {
        // read boundary right before / right after the payload newline
        plans.push(("process-split-before-payload-newline", big, vec![*p, len - *p], 0));
        plans.push(("process-split-after-payload-newline", big, vec![*p + 1, len - *p - 1], 0));
        acc.splits_at_payload_newline += 2;
    }
    for _ in 0..3 {
        let n = *rng.pick(&ns);
        plans.push(("process-random-chunks", n, random_chunks(rng, len), if rng.chance(1, 2) { rng.next() | 1 } else { 0 }));
    }
    if exhaustive_comps && len <= 14 {
        for mask in 0..(1u32 << (len - 1)) {
            let mut v = Vec::new();
            let mut cur = 1usize;
            for i in 0..len - 1 {
                if mask & (1 << i) != 0 {
                    v.push(cur);
                    cur = 1;
                }
                else {
                    cur += 1;
                }
            }
            v.push(cur);
            plans.push(("process-all-compositions", tight, v, 0));
        }
    }
    for (name, n, chunks, pend) in plans {
        let out = (c.iface.process)(&ProcSpec { stream: &c.bytes, n, chunks: &chunks, pend_seed: pend, fault_at: None });
        if out.crashed() {
            acc.res.skipped_crash += 1;
            continue;
        }
        let cfg = J::obj(vec![
            ("delivery", J::s(name)),
            ("n", n.into()),
            ("chunks", J::Arr(chunks.iter().take(40).map(|c| J::Int(if *c == usize::MAX { -1 } else { *c as i64 })).collect())),
            ("pend_seed", pend.into()),
        ]);
        judge(acc, c, name, cfg, &streams(&out.log), if twin_ok { Some(&twin_streams) } else { None });
    }
    par::case_end();
}

fn note_payload(acc: &mut Acc, ast: &MsgAst) {
    let mut seen_nl = false;
    for u in &ast.units {
        if seen_nl && !u.abs && u.raw_header.is_none() {
            acc.relative_after_payload_newline += 1;
        }
        for e in &u.expects {
            if let Expect::Call { args, .. } = e {
                for a in args {
                    match a {
                        Arg::Blk(b) => acc.payload_bytes_blk.extend(b.iter().copied()),
                        Arg::Str(b) => {
                            if let Ok(s) = std::str::from_utf8(b) {
                                acc.payload_chars_str.extend(s.chars());
                            }
                        }
                        _ => {}
                    }
                }
            }
        }
        for l in &u.lits {
            if l.text.first() == Some(&b'#') && l.text.len() > 1 && l.text[1].is_ascii_digit() {
                acc.block_widths.insert((l.text[1] - b'0') as usize);
            }
        }
        if u.payload_newline {
            seen_nl = true;
        }
    }
    if ast.has_payload_newline() {
        acc.msgs_with_payload_newline += 1;
    }
}

fn random_shard(ctx: &Ctx, ifaces: &[&'static IfaceDesc], shard: usize, cases: u64) -> Acc {
    let mut acc = Acc::default();
    let mut rng = Rng::fork(ctx.seed, 0xC08_0000 + shard as u64);
    for _case in 0..cases {
        let iface = *rng.pick(ifaces);
        let gen = Gen::new(
            iface,
            GenOpts {
                lit: LitOpts { payload_newline: true, wild_payload: true, max_payload: 9 },
                max_units: 4,
                trailing_semicolon_16: 0,
                relative_8: 7,
                ..Default::default()
            },
        );
        let ast = gen.valid_msg(&mut rng);
        let has_payload = ast.units.iter().any(|u| {
            u.expects.iter().any(|e| matches!(e, Expect::Call { args, .. } if args.iter().any(|a| matches!(a, Arg::Str(_) | Arg::Blk(_)))))
        });
        if !has_payload {
            continue;
        }
        note_payload(&mut acc, &ast);
        let mut st = Style::plain();
        st.seed = rng.next();
        let twin = twin_of(&ast);
        let c = Case {
            iface,
            bytes: ast.render(&st),
            expects: ast.expects(),
            twin_bytes: twin.render(&st),
            twin_expects: twin.expects(),
            feature: if ast.has_payload_newline() { "payload-newline" } else { "payload-other" },
        };
        run_case(&mut acc, &c, &mut rng, false);
    }
    acc
}

/// Targeted sweep on the fixed interfaces: every byte value at first / middle /
/// last payload position of a block, every header width, the special
/// characters in strings, payload units before and after relative units.
fn targeted_cases(mini: &'static IfaceDesc, pzoo: &'static IfaceDesc) -> Vec<(&'static IfaceDesc, MsgAst, &'static str)> {
    let mut v: Vec<(&'static IfaceDesc, MsgAst, &'static str)> = Vec::new();
    let gm = Gen::new(mini, GenOpts::default());
    let gp = Gen::new(pzoo, GenOpts::default());
    let di = |g: &Gen, cmd: &str| g.iface.decls.iter().position(|d| d.cmd == cmd).unwrap_or_else(|| panic!("decl {}", cmd));
    let blk_lit = |payload: &[u8], width: usize| -> crate::wl::Lit {
        let mut t = format!("#{}{:0w$}", width, payload.len(), w = width).into_bytes();
        t.extend_from_slice(payload);
        crate::wl::Lit { text: t }
    };
    let str_lit = |payload: &str, q: u8| -> crate::wl::Lit {
        let mut t = vec![q];
        t.extend_from_slice(payload.as_bytes());
        t.push(q);
        crate::wl::Lit { text: t }
    };
    let mut rng = Rng::new(99);
    let lit = LitOpts { payload_newline: false, wild_payload: false, max_payload: 3 };
    // helper: build a unit for decl with explicit literals/args
    let mk = |g: &Gen, cmd: &str, path: &mut Vec<String>, lits: Vec<crate::wl::Lit>, args: Vec<Arg>, rng: &mut Rng| {
        let d = di(g, cmd);
        let mut u = g.unit_for(d, path, None, false, &lit, rng);
        u.payload_newline = lits.iter().any(|l| l.text.contains(&b'\n'));
        u.lits = lits;
        u.expects = g.expect_call(d, args);
        u
    };
    // blocks: all byte values x 3 positions on pzoo P:BLK, width cycling 1..9
    for b in 0..=255u8 {
        for pos in 0..3 {
            let mut payload = b"abcde".to_vec();
            payload[[0, 2, 4][pos]] = b;
            let width = 1 + ((b as usize + pos) % 9);
            let mut path = Vec::new();
            let u = mk(&gp, "P:BLK", &mut path, vec![blk_lit(&payload, width)], vec![Arg::Blk(payload.clone())], &mut rng);
            v.push((pzoo, MsgAst { units: vec![u], trailing_semicolon: false }, if b == b'\n' { "payload-newline" } else { "payload-other" }));
        }
    }
    // long payloads (length > 255, length field of 3 and 9 digits), newlines inside
    for (len, width) in [(256usize, 3usize), (300, 3), (300, 9), (700, 4)] {
        let mut payload: Vec<u8> = (0..len).map(|i| (i * 7 + 3) as u8).collect();
        payload[len / 2] = b'\n';
        payload[len - 1] = b'\n';
        let mut path = Vec::new();
        let u = mk(&gp, "P:BLK", &mut path, vec![blk_lit(&payload, width)], vec![Arg::Blk(payload.clone())], &mut rng);
        v.push((pzoo, MsgAst { units: vec![u], trailing_semicolon: false }, "payload-newline"));
        let text: String = (0..len).map(|i| if i % 97 == 50 { '\n' } else { (b'a' + (i % 26) as u8) as char }).collect();
        let mut path = Vec::new();
        let u = mk(&gp, "P:STR", &mut path, vec![str_lit(&text, b'"')], vec![Arg::Str(text.as_bytes().to_vec())], &mut rng);
        v.push((pzoo, MsgAst { units: vec![u], trailing_semicolon: false }, "payload-newline"));
    }
    // strings: special characters, both quote kinds
    let specials = [";", ",", ":", "#", " ", "\t", "\n", "\r\n", "?", "*", "\u{e9}", "\u{1F600}", "\\", "\u{0}", "\u{7f}", "#12ab", "1;2", "A:B"];
    for sp in specials {
        for q in [b'"', b'\''] {
            for pos in 0..3 {
                let other = if q == b'"' { "'" } else { "\"" };
                let payload = match pos {
                    0 => format!("{}ab{}", sp, other),
                    1 => format!("a{}{}b", sp, other),
                    _ => format!("{}ab{}", other, sp),
                };
                let mut path = Vec::new();
                let u = mk(&gp, "P:STR", &mut path, vec![str_lit(&payload, q)], vec![Arg::Str(payload.as_bytes().to_vec())], &mut rng);
                v.push((pzoo, MsgAst { units: vec![u], trailing_semicolon: false }, if sp.contains('\n') { "payload-newline" } else { "payload-other" }));
            }
        }
    }
    // payload at argument positions 1..4 (MIX:TEN2: Str, Blk, ..., Str, Blk, I16)
    for nlpos in [0usize, 1, 7, 8] {
        let mut path = Vec::new();
        let mut lits = Vec::new();
        let mut args = Vec::new();
        let tys = gp.iface.decls[di(&gp, "MIX:TEN2")].params;
        for (k, t) in tys.iter().enumerate() {
            let with_nl = k == nlpos;
            match t {
                Ty::Str => {
                    let p = if with_nl { "x\ny;,".to_string() } else { "s,t".to_string() };
                    lits.push(str_lit(&p, b'"'));
                    args.push(Arg::Str(p.into_bytes()));
                }
                Ty::Blk => {
                    let p: Vec<u8> = if with_nl { b"\n\n;\"".to_vec() } else { b"b,c".to_vec() };
                    lits.push(blk_lit(&p, 2));
                    args.push(Arg::Blk(p));
                }
                Ty::Bool => {
                    lits.push(crate::wl::Lit { text: b"ON".to_vec() });
                    args.push(Arg::Bool(true));
                }
                Ty::F64 => {
                    lits.push(crate::wl::Lit { text: b"1.5".to_vec() });
                    args.push(Arg::F64(1.5f64.to_bits()));
                }
                other => {
                    lits.push(crate::wl::Lit { text: b"7".to_vec() });
                    args.push(other.int_arg(7));
                }
            }
        }
        let u = mk(&gp, "MIX:TEN2", &mut path, lits, args, &mut rng);
        v.push((pzoo, MsgAst { units: vec![u], trailing_semicolon: false }, "payload-newline"));
    }
    // compound messages on the compact interface with relative units before and after the payload
    for payload in ["x\ny", "\n", "a;b\n:c", "plain", "\"", "\n\n\n"] {
        for q in [b'"', b'\''] {
            if payload.contains(q as char) {
                continue;
            }
            // A:B 5 ; A "<payload>" (relative: A:A) ; B 7 (relative: A:B)
            let mut path = Vec::new();
            let u1 = mk(&gm, "A:B", &mut path, vec![crate::wl::Lit { text: b"5".to_vec() }], vec![Arg::U8(5)], &mut rng);
            let mut u2 = mk(&gm, "A:A", &mut path, vec![str_lit(payload, q)], vec![Arg::Str(payload.as_bytes().to_vec())], &mut rng);
            let mut u3 = mk(&gm, "A:B", &mut path, vec![crate::wl::Lit { text: b"7".to_vec() }], vec![Arg::U8(7)], &mut rng);
            // force relative addressing of units 2 and 3
            for u in [&mut u2, &mut u3] {
                u.abs = false;
                let last = u.mnems.pop().unwrap();
                u.mnems = vec![last];
            }
            let feat = if payload.contains('\n') { "payload-newline" } else { "payload-other" };
            v.push((mini, MsgAst { units: vec![u1.clone(), u2.clone(), u3.clone()], trailing_semicolon: false }, feat));
            v.push((mini, MsgAst { units: vec![u1.clone(), u2.clone()], trailing_semicolon: false }, feat));
            v.push((mini, MsgAst { units: vec![u1, u3.clone(), u2, u3], trailing_semicolon: false }, feat));
        }
    }
    for payload in [&b"a\nb"[..], b"\n", b";\n:", b"abc", b"\n\n"] {
        // B:A? ON ; C #..payload (relative: B:C) ; A? OFF (relative: B:A?)
        let mut path = Vec::new();
        let u1 = mk(&gm, "B:A?", &mut path, vec![crate::wl::Lit { text: b"ON".to_vec() }], vec![Arg::Bool(true)], &mut rng);
        let mut u2 = mk(&gm, "[B]:C", &mut path, vec![blk_lit(payload, 1)], vec![Arg::Blk(payload.to_vec())], &mut rng);
        let mut u3 = mk(&gm, "B:A?", &mut path, vec![crate::wl::Lit { text: b"OFF".to_vec() }], vec![Arg::Bool(false)], &mut rng);
        for u in [&mut u2, &mut u3] {
            u.abs = false;
            let last = u.mnems.pop().unwrap();
            u.mnems = vec![last];
        }
        let feat = if payload.contains(&b'\n') { "payload-newline" } else { "payload-other" };
        v.push((mini, MsgAst { units: vec![u1.clone(), u2.clone(), u3], trailing_semicolon: false }, feat));
        v.push((mini, MsgAst { units: vec![u1, u2], trailing_semicolon: false }, feat));
    }
    v
}

fn canary() -> Result<(), String> {
    let exp = vec![Expect::Call { h: 4, args: vec![Arg::Str(b"x\ny".to_vec())], ok: true }];
    let good = Streams { ce: vec![Sem::Call { h: 4, args: vec![Arg::Str(b"x\ny".to_vec())], ok: true }], out: vec![] };
    let mut spurious = good.clone();
    spurious.ce.insert(0, Sem::Err { num: -101, text: "Invalid character".into(), dbg: "InvalidCharacter".into() });
    let cut = Streams { ce: vec![Sem::Call { h: 4, args: vec![Arg::Str(b"x".to_vec())], ok: true }], out: vec![] };
    if check_streams(&exp, &good).is_err() || check_streams(&exp, &spurious).is_ok() || check_streams(&exp, &cut).is_ok() {
        return Err("C08 canary: oracle misjudged fabricated logs".into());
    }
    Ok(())
}

pub fn run(ctx: &Ctx) -> PropResult {
    let mut res = PropResult::default();
    if let Err(e) = canary() {
        res.inconclusive = Some(e);
        return res;
    }
    let mini = ctx.iface("mini");
    let pzoo = ctx.iface("pzoo");
    let targeted = targeted_cases(mini, pzoo);
    let mut all: Vec<&'static IfaceDesc> = vec![mini, pzoo];
    all.extend(ctx.random_ifaces().into_iter().filter(|i| i.decls.iter().any(|d| d.params.iter().any(|t| matches!(t, Ty::Str | Ty::Blk)))));
    let rand_shards = 48usize;
    let rand_cases = ctx.scaled(if ctx.thorough { 100_000 } else { 8_000 });
    let t_shards = 16usize;
    let per = targeted.len().div_ceil(t_shards);
    let accs = par::run_shards(
        t_shards + rand_shards,
        ctx.threads,
        |i| {
            if i < t_shards {
                let mut acc = Acc::default();
                let mut rng = Rng::fork(ctx.seed, 0xC08_1000 + i as u64);
                let lo = (i * per).min(targeted.len());
                let hi = ((i + 1) * per).min(targeted.len());
                for (iface, ast, feature) in &targeted[lo..hi] {
                    note_payload(&mut acc, ast);
                    let st = Style::plain();
                    let twin = twin_of(ast);
                    let c = Case { iface, bytes: ast.render(&st), expects: ast.expects(), twin_bytes: twin.render(&st), twin_expects: twin.expects(), feature };
                    run_case(&mut acc, &c, &mut rng, true);
                }
                acc
            }
            else {
                random_shard(ctx, &all, i - t_shards, rand_cases)
            }
        },
        |h| ctx.on_hang(h),
    );
    let mut distinct = HashSet::new();
    let mut by_delivery: BTreeMap<&'static str, u64> = BTreeMap::new();
    let mut bytes = HashSet::new();
    let mut chars = HashSet::new();
    let mut widths = HashSet::new();
    let (mut nlm, mut rel, mut splits) = (0, 0, 0);
    for acc in accs {
        distinct.extend(acc.distinct);
        for (k, v) in acc.by_delivery {
            *by_delivery.entry(k).or_default() += v;
        }
        bytes.extend(acc.payload_bytes_blk);
        chars.extend(acc.payload_chars_str);
        widths.extend(acc.block_widths);
        nlm += acc.msgs_with_payload_newline;
        rel += acc.relative_after_payload_newline;
        splits += acc.splits_at_payload_newline;
        res.merge(acc.res);
    }
    res.distinct = distinct.len() as u64;
    res.rule = format!(
        "targeted: {} messages on the fixed interfaces (every byte value at first/middle/last block position with header widths 1..9, special characters in strings of both quote kinds, payload at several argument positions, payload units before/after relative units), each through run and process (one read, byte-wise, tight N, split before/after every payload newline, random chunks with Pending, ALL compositions when <= 14 bytes); random: valid compound messages with wild payloads over {} interfaces. distinct = distinct message byte strings",
        targeted.len(),
        all.len()
    );
    res.cov("messages_with_payload_newline", nlm);
    res.cov("relative_units_after_a_payload_newline", rel);
    res.cov("distinct_block_payload_byte_values", bytes.len());
    res.cov("distinct_string_payload_chars", chars.len());
    let mut w: Vec<usize> = widths.into_iter().collect();
    w.sort();
    res.cov("block_header_widths", J::Arr(w.into_iter().map(|x| J::Int(x as i64)).collect()));
    res.cov("read_boundaries_placed_at_payload_newlines", splits);
    res.cov("executions_by_delivery", J::Obj(by_delivery.into_iter().map(|(k, v)| (k.to_string(), J::Int(v as i64))).collect()));
    res.samples.truncate(5);
    let described: Vec<J> = vec![
        J::s("A:B 5;A \"x\\ny\";B 7\\n via process, read boundary right after the payload newline"),
        J::s("P:BLK #3005ab\\ncd\\n via process byte-wise"),
    ];
    res.samples.extend(described.into_iter().take(1));
    res.assumptions = vec!["strings are valid UTF-8 and do not contain their own enclosing quote; messages are otherwise valid".into()];
    if nlm == 0 || rel == 0 || bytes.len() < 256 {
        res.inconclusive = Some("payload coverage floor not reached".into());
    }
    res
}
