//! Per-property monitors.  Each `run(ctx)` drives the real library over its
//! workload, applies its oracle to every recorded execution and returns what
//! it observed.

use crate::drive::IfaceDesc;
use crate::ev::esc;
use crate::out::{PropResult, Violation, J};
use crate::par::HangReport;

pub mod c01;
pub mod c02;
pub mod c03;
#[cfg(feature = "zoo")]
pub mod c04;
pub mod c05;
pub mod c06;
pub mod c07;
pub mod c08;
pub mod c09;
pub mod c10;
pub mod c11;
pub mod c12;
pub mod c13;

pub struct Ctx {
    pub prop: String,
    pub ifaces: Vec<&'static IfaceDesc>,
    pub thorough: bool,
    pub seed: u64,
    pub threads: usize,
    pub out_path: String,
    /// scale factor for workload sizes (testing the harness itself)
    pub scale_pct: u64,
    pub replay: Option<String>,
    /// very small workloads (the run is interpreted by Miri)
    pub tiny: bool,
    /// run only the work shards i with i % of == k (process-level sharding, used under Miri)
    pub shard: Option<(usize, usize)>,
}

impl Ctx {
    pub fn iface(&self, name: &str) -> &'static IfaceDesc {
        self.ifaces.iter().find(|i| i.name == name).copied().unwrap_or_else(|| panic!("interface {} not built", name))
    }
    pub fn iface_opt(&self, name: &str) -> Option<&'static IfaceDesc> {
        self.ifaces.iter().find(|i| i.name == name).copied()
    }
    /// The named interfaces that were built (some may be missing when the macro under test
    /// rejected their crate; see ./check).
    pub fn built(&self, names: &[&str]) -> Vec<&'static IfaceDesc> {
        names.iter().filter_map(|n| self.iface_opt(n)).collect()
    }
    pub fn random_ifaces(&self) -> Vec<&'static IfaceDesc> {
        self.ifaces.iter().filter(|i| i.name.starts_with('r')).copied().collect()
    }
    pub fn scaled(&self, n: u64) -> u64 {
        (n * self.scale_pct / 100).max(1)
    }
    /// Hang handler: a case burnt its CPU budget.  C05 owns the verdict; every
    /// other monitor reports the run as inconclusive.
    pub fn on_hang(&self, h: HangReport) {
        let mut r = PropResult::default();
        let desc = format!("input=\"{}\" params={:?} cpu_s={:.1}", esc(&h.input), h.params, h.cpu_s);
        if self.prop == "C05" {
            r.add_violation(Violation {
                sig: "hang/cpu-budget".into(),
                summary: format!("a single case did not finish within {} s of thread CPU time: {}", crate::par::HANG_CPU_S, desc),
                witness: J::obj(vec![
                    ("input", J::s(esc(&h.input))),
                    ("input_hex", J::s(h.input.iter().map(|b| format!("{:02x}", b)).collect::<String>())),
                    ("params", J::Arr(h.params.iter().map(|p| J::Int(*p as i64)).collect())),
                ]),
            });
            r.evaluations = 1;
        }
        else {
            r.inconclusive = Some(format!("a case hung (C05's finding, not this property's): {}", desc));
        }
        let _ = std::fs::write(&self.out_path, r.to_json().to_string());
        eprintln!("HANG {}", desc);
        std::process::exit(3);
    }
}

/// Normalises a panic description into a stable signature component.
pub fn panic_sig(p: &str) -> String {
    let (msg, loc) = match p.rsplit_once(" @ ") {
        Some((m, l)) => (m, l),
        None => (p, ""),
    };
    let site = if loc.contains("/g/g") || loc.contains("/g/") && loc.contains("/src/i_") {
        "generated-dispatch".to_string()
    }
    else {
        // keep file, drop line/column
        let file = loc.split(':').next().unwrap_or("");
        let file = file.rsplit("/microscpi").next().map(|s| format!("microscpi{}", s)).unwrap_or_else(|| file.to_string());
        file
    };
    // strip digits from the message so that lengths / indices do not split signatures
    let m: String = msg.chars().filter(|c| !c.is_ascii_digit()).collect();
    let m = if m.len() > 80 { m[..80].to_string() } else { m };
    format!("panic@{}/{}", site, m.trim())
}

pub fn hex(b: &[u8]) -> String {
    b.iter().map(|x| format!("{:02x}", x)).collect()
}
