//! C02 — header path context follows the SCPI compound-message rules.
//!
//! Message sequences over trees in which the same mnemonic exists at several
//! levels; the expectation of every message is computed from the message
//! alone with the path model (relative = path of the previous header, ':' =
//! root, '*' = transparent, terminator = root), so a dependence on earlier
//! messages shows as a mismatch.  The ordering clause (each unit finishes,
//! response and flush included, before the next starts) is judged on the
//! single event order of `run` executions with suspending futures.

use std::collections::{BTreeMap, HashSet};

use super::c05::random_chunks;
use super::{hex, Ctx};
use crate::drive::{IfaceDesc, ProcSpec, RunSpec, WriterKind};
use crate::ev::esc;
use crate::out::{PropResult, Violation, J};
use crate::par;
use crate::prng::{fnv, Rng};
use crate::sem::{check_unit_order, streams, Sem, Streams};
use crate::spec::parse_decl;
use crate::sem::{check_alternatives, MsgExpect};
use crate::wl::{Expect, Fault, Gen, GenOpts, LitOpts, MsgAst, Style};

#[derive(Default)]
struct Acc {
    res: PropResult,
    distinct: HashSet<u64>,
    units_rel: u64,
    units_abs: u64,
    units_common: u64,
    units_undefined_last: u64,
    units_failing_mid_message: u64,
    empty_units_mid_message: u64,
    msgs_empty: u64,
    msgs_trailing_semicolon: u64,
    msgs_payload_newline: u64,
    by_delivery: BTreeMap<&'static str, u64>,
    order_checked: u64,
    pendings: u64,
    trees: HashSet<&'static str>,
}

struct SeqMsg {
    bytes: Vec<u8>,
    /// every unit runs
    expects: Vec<Expect>,
    /// alternatives: execution stops after one of the failing units (C06 allows either)
    alts: MsgExpect,
    desc: String,
}

const EXEC_FAULTS: [Fault; 8] =
    [Fault::WrongKind, Fault::TooFew, Fault::TooMany, Fault::WrongType, Fault::OutOfRange, Fault::NotBool, Fault::Handler, Fault::InnerNode];

fn gen_message(gen: &Gen, acc: &mut Acc, rng: &mut Rng, max_units: usize) -> SeqMsg {
    match rng.below(12) {
        0 => {
            acc.msgs_empty += 1;
            return SeqMsg { bytes: b"\n".to_vec(), expects: vec![], alts: MsgExpect { alts: vec![vec![]] }, desc: "empty".into() };
        }
        1 => {
            acc.msgs_empty += 1;
            return SeqMsg { bytes: b"  \n".to_vec(), expects: vec![], alts: MsgExpect { alts: vec![vec![]] }, desc: "white-space".into() };
        }
        _ => {}
    }
    // one message in five is free of faults of any kind and may then carry newlines inside
    // string / block payloads (a faulty message with a payload newline is outside C06's premise):
    // the path must survive the payload newline, also when process sees it at the end of a read
    let clean = rng.chance(1, 5);
    let lit = LitOpts { payload_newline: clean, wild_payload: false, max_payload: 4 };
    let k = if rng.chance(1, 25) { rng.range(9, 20) } else { rng.range(1, max_units) };
    let mut path: Vec<String> = Vec::new();
    let mut units = Vec::new();
    for _ in 0..k {
        let mut di = rng.below(gen.iface.decls.len());
        for _ in 0..(if clean { 200 } else { 8 }) {
            if gen.iface.decls[di].fails.is_none() {
                break;
            }
            di = rng.below(gen.iface.decls.len());
        }
        let was_empty = path.is_empty();
        // sometimes the unit fails at execution (its header still resolves, so the path
        // advances as for any other unit and later relative units depend on it)
        let mut fault = None;
        if !clean && rng.chance(1, 7) {
            let f = *rng.pick(&EXEC_FAULTS);
            let cands: Vec<usize> = (0..gen.iface.decls.len())
                .filter(|d| gen.fault_applicable(*d, f) && (f == Fault::Handler || gen.iface.decls[*d].fails.is_none()))
                .collect();
            if !cands.is_empty() {
                di = *rng.pick(&cands);
                fault = Some(f);
                acc.units_failing_mid_message += 1;
            }
        }
        let u = gen.unit_for(di, &mut path, fault, false, &lit, rng);
        if gen.decls[di].is_common() {
            acc.units_common += 1;
        }
        else if u.abs {
            acc.units_abs += 1;
        }
        else if !was_empty {
            acc.units_rel += 1;
        }
        units.push(u);
    }
    // sometimes an empty unit (";;" or "; ;") in the middle: the statement does not say whether
    // it is skipped or refused, but it has no header, so it must not change the path: either
    // the message is refused there (one error, nothing after it runs) or the units after it
    // resolve exactly as if it were not there
    let mut empty_at: Option<usize> = None;
    if !clean && units.len() >= 2 && rng.chance(1, 8) {
        let k = rng.range(1, units.len() - 1);
        let mut e = units[0].clone();
        e.abs = false;
        e.mnems = vec![];
        e.raw_header = Some(if rng.chance(1, 2) { vec![] } else { vec![b' '] });
        e.query = false;
        e.lits = vec![];
        e.expects = vec![];
        e.fault = None;
        e.target = None;
        units.insert(k, e);
        empty_at = Some(k);
        acc.empty_units_mid_message += 1;
    }
    // sometimes a last unit that resolves to nothing from the current path
    if !clean && rng.chance(1, 5) {
        if let Some(u) = gen.undefined_rel_unit(&path, rng) {
            acc.units_undefined_last += 1;
            units.push(u);
        }
    }
    let trailing = units.last().map(|u| u.fault.is_none()).unwrap_or(true) && rng.chance(1, 5);
    if trailing {
        acc.msgs_trailing_semicolon += 1;
    }
    let ast = MsgAst { units, trailing_semicolon: trailing };
    if ast.has_payload_newline() {
        acc.msgs_payload_newline += 1;
    }
    let mut st = Style::plain();
    st.seed = rng.next();
    st.case = rng.below(3) as u8;
    if rng.chance(1, 4) {
        st.ws_unit_start = vec![*rng.pick(&[b' ', b'\t', 0x0bu8])];
    }
    // a unit counts as failing if it is labelled faulty or its declaration's handler fails
    let units: Vec<(Vec<Expect>, Vec<Expect>, bool)> = ast
        .units
        .iter()
        .enumerate()
        .map(|(k, u)| {
            if Some(k) == empty_at {
                (vec![], vec![Expect::Err(crate::wl::ErrSpec::Any)], true)
            }
            else {
                (u.expects.clone(), u.expects.clone(), u.fault.is_some() || u.expects.iter().any(|e| matches!(e, Expect::Err(_))))
            }
        })
        .collect();
    SeqMsg { bytes: ast.render(&st), expects: ast.expects(), alts: MsgExpect::from_units3(&units), desc: format!("{} units{}", ast.units.len(), if trailing { " + ';'" } else { "" }) }
}

fn shard(ctx: &Ctx, ifaces: &[&'static IfaceDesc], shard: usize, cases: u64) -> Acc {
    let mut acc = Acc::default();
    let mut rng = Rng::fork(ctx.seed, 0xC02_0000 + shard as u64);
    let max_units = if ctx.thorough { 8 } else { 5 };
    for case in 0..cases {
        let iface = *rng.pick(ifaces);
        acc.trees.insert(iface.name);
        let gen = Gen::new(iface, GenOpts { relative_8: 7, ..Default::default() });
        let n_msgs = rng.range(1, 6);
        let msgs: Vec<SeqMsg> = (0..n_msgs).map(|_| gen_message(&gen, &mut acc, &mut rng, max_units)).collect();
        let refs: Vec<&[u8]> = msgs.iter().map(|m| &m.bytes[..]).collect();
        let stream: Vec<u8> = refs.concat();
        let expects: Vec<Expect> = msgs.iter().flat_map(|m| m.expects.iter().cloned()).collect();
        let alts: Vec<MsgExpect> = msgs.iter().map(|m| m.alts.clone()).collect();
        acc.distinct.insert(fnv(&stream));
        par::case_begin(&stream, [shard as u64, case, 0, 0]);
        let queries: Vec<bool> = iface.decls.iter().map(|d| parse_decl(d.cmd).query).collect();
        let is_query = |h: u16| queries.get(h as usize).copied().unwrap_or(false);

        let ns = (iface.ns)();
        let big = *ns.iter().max().unwrap();
        let mut longest = refs.iter().map(|m| m.len()).max().unwrap_or(1);
        {
            // responses must fit as well (oversized responses are C05's workload)
            let probe = (iface.run)(&RunSpec { inputs: &refs, writer: WriterKind::Rec(None), pend_seed: 0 });
            let mut cur = 0usize;
            for e in &probe.log {
                match e {
                    crate::ev::Ev::Mark(_) => cur = 0,
                    crate::ev::Ev::Write(b) => {
                        cur += b.len();
                        longest = longest.max(cur);
                    }
                    _ => {}
                }
            }
        }
        for delivery in ["run-per-message", "run-one-buffer", "process-one-read", "process-byte-wise", "process-random"] {
            let pend = if rng.chance(1, 2) { rng.next() | 1 } else { 0 };
            let (out, cfg) = match delivery {
                "run-per-message" => ((iface.run)(&RunSpec { inputs: &refs, writer: WriterKind::Rec(None), pend_seed: pend }), J::Null),
                "run-one-buffer" => ((iface.run)(&RunSpec { inputs: &[&stream], writer: WriterKind::Rec(None), pend_seed: pend }), J::Null),
                _ => {
                    if longest > big {
                        continue;
                    }
                    let chunks = match delivery {
                        "process-one-read" => vec![],
                        "process-byte-wise" => vec![1; stream.len()],
                        _ => random_chunks(&mut rng, stream.len()),
                    };
                    let out = (iface.process)(&ProcSpec { stream: &stream, n: big, chunks: &chunks, pend_seed: pend, fault_at: None });
                    (out, J::obj(vec![("n", big.into()), ("chunks", J::Arr(chunks.iter().take(48).map(|c| J::Int(*c as i64)).collect()))]))
                }
            };
            if out.crashed() {
                acc.res.skipped_crash += 1;
                continue;
            }
            acc.res.evaluations += 1;
            acc.pendings += out.pendings;
            acc.res.sample(|| J::obj(vec![("iface", J::s(iface.name)), ("messages", J::strs(msgs.iter().map(|m| esc(&m.bytes)))), ("delivery", J::s(delivery)), ("pend_seed", pend.into()), ("events", out.log.len().into())]));
            *acc.by_delivery.entry(delivery).or_default() += 1;
            let got = streams(&out.log);
            let mut bad: Option<(String, String)> = None;
            if let Err(e) = check_alternatives(&alts, &got) {
                bad = Some((classify(&expects, &got, delivery), e));
            }
            else if delivery.starts_with("run") {
                acc.order_checked += 1;
                if let Err(e) = check_unit_order(&out.log, &is_query) {
                    bad = Some((format!("unit-order/{}", delivery), e));
                }
            }
            if let Some((sig, detail)) = bad {
                acc.res.add_violation(Violation {
                    sig,
                    summary: format!("sequence [{}] via {}: {}", msgs.iter().map(|m| m.desc.clone()).collect::<Vec<_>>().join(" | "), delivery, detail),
                    witness: J::obj(vec![
                        ("iface", J::s(iface.name)),
                        ("decls", J::strs(iface.decls.iter().map(|x| x.cmd.to_string()))),
                        ("messages", J::strs(msgs.iter().map(|m| esc(&m.bytes)))),
                        ("messages_hex", J::strs(msgs.iter().map(|m| hex(&m.bytes)))),
                        ("delivery", J::s(delivery)),
                        ("config", cfg),
                        ("pend_seed", pend.into()),
                        ("observed", J::strs(got.show())),
                        ("expected", J::strs(expects.iter().map(|e| format!("{:?}", e)))),
                    ]),
                });
            }
        }
        par::case_end();
    }
    acc
}

fn classify(expects: &[Expect], got: &Streams, delivery: &str) -> String {
    let want_calls: Vec<u16> = expects.iter().filter_map(|e| if let Expect::Call { h, .. } = e { Some(*h) } else { None }).collect();
    let got_calls: Vec<u16> = got.ce.iter().filter_map(|e| if let Sem::Call { h, .. } = e { Some(*h) } else { None }).collect();
    let kind = if delivery.starts_with("run-per") {
        "within-message"
    }
    else if delivery.starts_with("run") {
        "run-one-buffer"
    }
    else {
        "process"
    };
    if want_calls.len() == got_calls.len() && want_calls != got_calls {
        format!("wrong-handler-dispatched/{}", kind)
    }
    else if got_calls.len() < want_calls.len() {
        format!("defined-unit-not-dispatched/{}", kind)
    }
    else if got_calls.len() > want_calls.len() {
        format!("undefined-unit-dispatched/{}", kind)
    }
    else {
        format!("events-differ/{}", kind)
    }
}

fn canary() -> Result<(), String> {
    use crate::ev::Ev;
    let isq = |h: u16| h == 1;
    let good = vec![
        Ev::Enter { h: 1, args: vec![] },
        Ev::Exit { h: 1, ok: true },
        Ev::Write(b"5".to_vec()),
        Ev::Write(b"\n".to_vec()),
        Ev::Flush,
        Ev::Enter { h: 0, args: vec![] },
        Ev::Exit { h: 0, ok: true },
    ];
    let mut early = good.clone();
    early.swap(4, 5); // next unit starts before the flush
    let mut noflush = good.clone();
    noflush.remove(4);
    if check_unit_order(&good, &isq).is_err() || check_unit_order(&early, &isq).is_ok() || check_unit_order(&noflush, &isq).is_ok() {
        return Err("C02 canary: ordering oracle misjudged fabricated logs".into());
    }
    Ok(())
}

pub fn run(ctx: &Ctx) -> PropResult {
    let mut res = PropResult::default();
    if let Err(e) = canary() {
        res.inconclusive = Some(e);
        return res;
    }
    // trees: the compact interface and every random interface (a third of them
    // are built from a 3-5 mnemonic vocabulary, depth up to 4)
    let mut all: Vec<&'static IfaceDesc> = ctx.built(&["mini"]);
    all.extend(ctx.random_ifaces());
    // how many trees have one mnemonic at more than one level?
    let multi_level = all
        .iter()
        .filter(|i| {
            let mut seen: BTreeMap<String, HashSet<usize>> = BTreeMap::new();
            for d in i.decls {
                for (lvl, n) in parse_decl(d.cmd).nodes.iter().enumerate() {
                    seen.entry(n.long.clone()).or_default().insert(lvl);
                }
            }
            seen.values().any(|s| s.len() > 1)
        })
        .count();
    let shards = 64usize;
    let cases = ctx.scaled(if ctx.thorough { 60_000 } else { 5_000 });
    let accs = par::run_shards(shards, ctx.threads, |i| shard(ctx, &all, i, cases), |h| ctx.on_hang(h));
    let mut distinct = HashSet::new();
    let mut by_delivery: BTreeMap<&'static str, u64> = BTreeMap::new();
    let mut trees = HashSet::new();
    let (mut rel, mut abs, mut com, mut und, mut emp, mut tr, mut ord, mut pend) = (0, 0, 0, 0, 0, 0, 0, 0);
    let mut failing_mid = 0;
    let mut empty_mid = 0;
    let mut pnl = 0;
    for acc in accs {
        pnl += acc.msgs_payload_newline;
        distinct.extend(acc.distinct);
        trees.extend(acc.trees);
        for (k, v) in acc.by_delivery {
            *by_delivery.entry(k).or_default() += v;
        }
        rel += acc.units_rel;
        abs += acc.units_abs;
        com += acc.units_common;
        und += acc.units_undefined_last;
        failing_mid += acc.units_failing_mid_message;
        empty_mid += acc.empty_units_mid_message;
        emp += acc.msgs_empty;
        tr += acc.msgs_trailing_semicolon;
        ord += acc.order_checked;
        pend += acc.pendings;
        res.merge(acc.res);
    }
    res.distinct = distinct.len() as u64;
    res.rule = format!(
        "random sequences of 1..6 messages (1..{} units each: relative / absolute / common headers, short and long forms and cases mixed, optionally an undefined relative last unit, optionally a trailing ';'; empty and white-space-only messages) over {} trees ({} with one mnemonic at several levels), delivered as one run per message, one run buffer, process one read / byte-wise / random chunks, half of them with Pending injection; oracle = path model on the message alone + unit-order check on run logs. distinct = distinct sequence byte strings",
        if ctx.thorough { 8 } else { 5 },
        all.len(),
        multi_level
    );
    res.cov("trees_driven", trees.len());
    res.cov("trees_with_a_mnemonic_at_several_levels", multi_level);
    res.cov("relative_units_below_root", rel);
    res.cov("absolute_units", abs);
    res.cov("common_units", com);
    res.cov("undefined_relative_last_units", und);
    res.cov("units_failing_at_execution_followed_by_more_units", failing_mid);
    res.cov("empty_units_in_the_middle_of_a_message", empty_mid);
    res.cov("empty_or_whitespace_messages", emp);
    res.cov("messages_ending_in_semicolon", tr);
    res.cov("fault_free_messages_with_a_newline_inside_a_payload", pnl);
    res.cov("run_logs_order_checked", ord);
    res.cov("pending_returns_injected", pend);
    res.cov("executions_by_delivery", J::Obj(by_delivery.into_iter().map(|(k, v)| (k.to_string(), J::Int(v as i64))).collect()));
    res.samples.truncate(5);
    let described: Vec<J> = vec![J::s("[\"A:B 1;C;*RST;:B:A? ON;C #13abc;\\n\", \"C\\n\"] as one run buffer")];
    res.samples.extend(described.into_iter().take(1));
    res.assumptions = vec!["after a unit that fails at execution, either all or none of the later units may run (C06); when they run they must resolve relative to the failed unit's header".into()];
    if rel == 0 || com == 0 || und == 0 || tr == 0 {
        res.inconclusive = Some("a unit class was never generated".into());
    }
    res
}
