//! C13 — parsing, dispatch and response formatting never allocate on the heap.
//!
//! A counting global allocator observes every `run` / `process` /
//! `write_response` call (per-thread window; the harness' own recorders run in
//! an exempt section).  The build half of the property (no_std, no allocator)
//! is decided by building and running `/verif/nostd` (see ./check).

use std::collections::{BTreeMap, HashSet};

use super::c05::{random_chunks, ALPHABET};
use super::{hex, Ctx};
use crate::alloc;
use crate::drive::{IfaceDesc, ProcSpec, RunOut, RunSpec, WriterKind, HEAPLESS_CAPS};
use crate::ev::esc;
use crate::exec::block_on;
use crate::out::{PropResult, Violation, J};
use crate::par;
use crate::prng::{fnv, Rng};
use crate::wl::{Gen, GenOpts, LitOpts, Style, ALL_FAULTS};
use microscpi::Response;

#[derive(Default)]
struct Acc {
    res: PropResult,
    distinct: HashSet<u64>,
    windows: u64,
    bytes: u64,
    allocs: u64,
    by_api: BTreeMap<&'static str, u64>,
    calls: u64,
    errors: u64,
    responses: u64,
}

fn judge(acc: &mut Acc, iface: &str, api: &'static str, input: &[u8], cfg: String, out: &RunOut) {
    acc.res.evaluations += 1;
    acc.windows += 1;
    acc.bytes += input.len() as u64;
    acc.res.sample(|| J::obj(vec![("iface", J::s(iface)), ("api", J::s(api)), ("input", J::s(esc(&input[..input.len().min(160)]))), ("config", J::s(cfg.clone())), ("allocations_in_window", out.allocs.into()), ("events", out.log.len().into())]));
    *acc.by_api.entry(api).or_default() += 1;
    if out.crashed() {
        acc.res.skipped_crash += 1;
        return;
    }
    for e in &out.log {
        match e {
            crate::ev::Ev::Enter { .. } => acc.calls += 1,
            crate::ev::Ev::Error { .. } => acc.errors += 1,
            crate::ev::Ev::Out(b) | crate::ev::Ev::AWrite(b) => {
                if !b.is_empty() {
                    acc.responses += 1;
                }
            }
            _ => {}
        }
    }
    if out.allocs > 0 {
        acc.allocs += out.allocs;
        // find out where: repeat with backtrace capture
        acc.res.add_violation(Violation {
            sig: format!("heap-allocation-in-{}", api),
            summary: format!("{} heap allocation(s) while the library handled \"{}\" ({})", out.allocs, esc(&input[..input.len().min(100)]), cfg),
            witness: J::obj(vec![("iface", J::s(iface)), ("api", J::s(api)), ("input", J::s(esc(input))), ("input_hex", J::s(hex(input))), ("config", J::s(cfg)), ("allocations", out.allocs.into())]),
        });
    }
}

fn shard(ctx: &Ctx, ifaces: &[&'static IfaceDesc], shard: usize, cases: u64) -> Acc {
    let mut acc = Acc::default();
    let mut rng = Rng::fork(ctx.seed, 0xC13_0000 + shard as u64);
    for case in 0..cases {
        let iface = *rng.pick(ifaces);
        let max_payload = if rng.chance(1, 6) { 90 } else { 16 };
        let gen = Gen::new(iface, GenOpts { lit: LitOpts { payload_newline: true, wild_payload: true, max_payload }, max_units: 4, ..Default::default() });
        let mut stream: Vec<u8> = Vec::new();
        for _ in 0..rng.range(1, 4) {
            match rng.below(5) {
                0 => {
                    let f = *rng.pick(&ALL_FAULTS);
                    let m = gen.faulty_msg(f, rng.below(3) as u8, &mut rng).unwrap_or_else(|| gen.valid_msg(&mut rng));
                    let mut st = Style::plain();
                    st.seed = rng.next();
                    st.case = rng.below(3) as u8;
                    stream.extend_from_slice(&m.render(&st));
                }
                1 => {
                    for _ in 0..rng.range(1, 14) {
                        stream.push(*rng.pick(&ALPHABET));
                    }
                    stream.push(b'\n');
                }
                2 if iface.err_cmds => stream.extend_from_slice(*rng.pick(&[&b"SYST:ERR?\n"[..], b"SYST:ERR:COUN?\n", b"SYSTEM:ERROR:NEXT?;:SYST:ERR?\n"])),
                _ => {
                    let m = gen.valid_msg(&mut rng);
                    let mut st = Style::plain();
                    st.seed = rng.next();
                    st.case = rng.below(3) as u8;
                    stream.extend_from_slice(&m.render(&st));
                }
            }
        }
        acc.distinct.insert(fnv(&stream));
        par::case_begin(&stream, [shard as u64, case, 0, 0]);
        let cap = *rng.pick(&HEAPLESS_CAPS);
        let pend = if rng.chance(1, 3) { rng.next() | 1 } else { 0 };
        let out = (iface.run)(&RunSpec { inputs: &[&stream], writer: WriterKind::Heapless(cap), pend_seed: pend });
        judge(&mut acc, iface.name, "run", &stream, format!("heapless::Vec<u8,{}>", cap), &out);
        let ns = (iface.ns)();
        let n = *rng.pick(&ns);
        let chunks = random_chunks(&mut rng, stream.len());
        let out = (iface.process)(&ProcSpec { stream: &stream, n, chunks: &chunks, pend_seed: pend, fault_at: None });
        judge(&mut acc, iface.name, "process", &stream, format!("N={}", n), &out);
        par::case_end();
    }
    // every literal of C03's pool (long digit strings, exponents, every radix and prefix case,
    // character data, strings, blocks) to every parameter type of the parameter zoo
    if let Some(pz) = ifaces.iter().find(|i| i.name == "pzoo") {
        let pool = super::c03::pool(&mut rng, 40);
        for (li, l) in pool.iter().enumerate() {
            if li % 64 != shard % 64 {
                continue;
            }
            for t in crate::ev::ALL_TYS {
                let mut input = format!("P:{} ", t.name().to_ascii_uppercase()).into_bytes();
                input.extend_from_slice(&l.text);
                input.push(b'\n');
                let out = (pz.run)(&RunSpec { inputs: &[&input], writer: WriterKind::Heapless(64), pend_seed: 0 });
                judge(&mut acc, pz.name, "run", &input, "literal pool, heapless::Vec<u8,64>".into(), &out);
                let out = (pz.process)(&ProcSpec { stream: &input, n: 256, chunks: &[5, 0, 7], pend_seed: 0, fault_at: None });
                judge(&mut acc, pz.name, "process", &input, "literal pool, N=256".into(), &out);
            }
        }
    }
    // malformed literals (the error paths of the literal parsers) to every parameter type
    if let Some(pz) = ifaces.iter().find(|i| i.name == "pzoo") {
        if shard == 0 {
            let bad: [&[u8]; 68] = [
                b"#2xyhello", b"#1-", b"#1x", b"#9abc", b"#3 12abc", b"#21", b"#H", b"#HZZ", b"#Q9", b"#B2", b"#", b"1E", b"1E+", b"--1", b"1..2", b"'open", b"\"open", b"#0", b"#00",
                b"@", b"1 2", b"1,", b",1", b"1,,2", b"#1", b"#9", b"#11", b"+", b"-", b".", b"1e1e1", b"#h", b"\xff", b"#2\xff\xfe12",
                // near-syntax a later "small feature" may start to accept through a new code path:
                // white space inside numbers, suffixes, keywords, expressions, other radix spellings
                b"1.5 E3", b"1.5E +3", b"1.5 E +3", b"1.5\tE3", b"1 .5", b"+ 1", b"- 1", b"1.5V", b"1.5 V", b"10 MHZ", b"1E3HZ", b"1 E3 HZ", b"MIN", b"MAX", b"DEF", b"MINimum", b"UP",
                b"(1,2)", b"(@1:3)", b"#H FF", b"#HFF ", b"1_000", b"0x10", b"INF", b"NINF", b"NAN", b"-INF", b"1.", b".5E", b"TRUE", b"FALSE", b"On", b"'a''b'", b"\"a\"\"b\"",
            ];
            for b in bad {
                for t in crate::ev::ALL_TYS {
                    for lower in [false, true] {
                        let head = format!("P:{} ", t.name().to_ascii_uppercase());
                        let mut input = if lower { head.to_ascii_lowercase().into_bytes() } else { head.into_bytes() };
                        input.extend_from_slice(b);
                        input.push(b'\n');
                        let out = (pz.run)(&RunSpec { inputs: &[&input], writer: WriterKind::Heapless(64), pend_seed: 0 });
                        judge(&mut acc, pz.name, "run", &input, "malformed literal, heapless::Vec<u8,64>".into(), &out);
                        let out = (pz.process)(&ProcSpec { stream: &input, n: 64, chunks: &[3, 0, 4], pend_seed: 0, fault_at: None });
                        judge(&mut acc, pz.name, "process", &input, "malformed literal, N=64".into(), &out);
                    }
                }
            }
        }
    }
    // response formatting directly into a fixed-capacity buffer
    for _ in 0..cases {
        let mut h: heapless::Vec<u8, 512> = heapless::Vec::new();
        let f = f64::from_bits(rng.next());
        let g = f32::from_bits(rng.next() as u32);
        let i = rng.next() as i64;
        let s = "str\"ing";
        let t = (i, f, s, g);
        let (a0, _) = alloc::counted();
        alloc::window_open();
        let _ = block_on(t.write_response(&mut h), 100);
        let _ = block_on(microscpi::Arbitrary(&[1, 2, 3]).write_response(&mut h), 100);
        let _ = block_on(microscpi::Error::Custom(5, "five").write_response(&mut h), 100);
        h.clear();
        let ints: [i32; 9] = [1, -2, 3, i32::MIN, 5, 6, 7, 8, i32::MAX];
        let _ = block_on(ints.as_slice().write_response(&mut h), 100);
        let floats: [f64; 6] = [f, -f, 1e300, 1e-300, 0.1, f64::MAX];
        let _ = block_on(floats.as_slice().write_response(&mut h), 100);
        h.clear();
        let mut hs: heapless::String<32> = heapless::String::new();
        let _ = hs.push_str("heap\"less");
        let _ = block_on(hs.write_response(&mut h), 100);
        let _ = block_on(microscpi::Characters("MAXimum").write_response(&mut h), 100);
        let mut hv: heapless::Vec<(u8, bool), 4> = heapless::Vec::new();
        for k in 0..4u8 {
            let _ = hv.push((k, k % 2 == 0));
        }
        let _ = block_on(hv.write_response(&mut h), 100);
        let big = [0x5au8; 300];
        let _ = block_on(microscpi::Arbitrary(&big).write_response(&mut h), 100);
        let _ = block_on(((true, (i as u8, s)), (g, ())).write_response(&mut h), 100);
        alloc::window_close();
        let (a1, _) = alloc::counted();
        acc.res.evaluations += 1;
        acc.windows += 1;
        *acc.by_api.entry("write_response").or_default() += 1;
        if a1 != a0 {
            acc.allocs += a1 - a0;
            acc.res.add_violation(Violation {
                sig: "heap-allocation-in-write_response".into(),
                summary: format!("{} heap allocation(s) while formatting {:?}", a1 - a0, t),
                witness: J::obj(vec![("value", J::s(format!("{:?}", t)))]),
            });
        }
    }
    acc
}

fn canary() -> Result<(), String> {
    // the counter must be live: an allocation inside a window is counted, one inside an
    // exempt section or outside a window is not
    let (a0, _) = alloc::counted();
    let v: Vec<u8> = std::hint::black_box(Vec::with_capacity(64));
    drop(std::hint::black_box(v));
    let (a1, _) = alloc::counted();
    alloc::window_open();
    let e: Vec<u8> = alloc::exempt(|| std::hint::black_box(Vec::with_capacity(64)));
    let (a2, _) = alloc::counted();
    let w: Vec<u8> = std::hint::black_box(Vec::with_capacity(64));
    let (a3, _) = alloc::counted();
    alloc::window_close();
    drop(std::hint::black_box(e));
    drop(std::hint::black_box(w));
    if a1 != a0 || a2 != a1 || a3 != a2 + 1 {
        return Err(format!("C13 canary: allocation counter not live or not scoped ({} {} {} {}) - is CountingAlloc the global allocator?", a0, a1, a2, a3));
    }
    Ok(())
}

pub fn run(ctx: &Ctx) -> PropResult {
    let mut res = PropResult::default();
    if let Err(e) = canary() {
        res.inconclusive = Some(e);
        return res;
    }
    if cfg!(feature = "std") {
        res.inconclusive = Some("C13 must run in the default-feature build (microscpi without `std`)".into());
        return res;
    }
    let mut all: Vec<&'static IfaceDesc> = ctx.built(&["mini", "pzoo", "qdev2", "qdev10"]);
    all.extend(ctx.random_ifaces());
    let shards = 64usize;
    let cases = ctx.scaled(if ctx.thorough { 150_000 } else { 10_000 });
    let accs = par::run_shards(shards, ctx.threads, |i| shard(ctx, &all, i, cases), |h| ctx.on_hang(h));
    let mut distinct = HashSet::new();
    let mut by_api: BTreeMap<&'static str, u64> = BTreeMap::new();
    let (mut windows, mut bytes, mut allocs, mut calls, mut errors, mut responses) = (0, 0, 0, 0, 0, 0);
    for acc in accs {
        distinct.extend(acc.distinct);
        for (k, v) in acc.by_api {
            *by_api.entry(k).or_default() += v;
        }
        windows += acc.windows;
        bytes += acc.bytes;
        allocs += acc.allocs;
        calls += acc.calls;
        errors += acc.errors;
        responses += acc.responses;
        res.merge(acc.res);
    }
    res.distinct = distinct.len() as u64;
    res.rule = format!(
        "valid / faulty / payload-newline / arbitrary-byte / error-queue-query streams over {} interfaces (default features, no `std`), each through run into the library's heapless::Vec writer of a random capacity and through process::<N> with random N, chunking and Pending pattern, plus direct formatting of tuples, blocks and errors into a heapless buffer; every library call inside a counting-allocator window. distinct = distinct stream byte strings",
        all.len()
    );
    res.cov("windows_opened", windows);
    res.cov("bytes_interpreted_inside_windows", bytes);
    res.cov("allocations_seen", allocs);
    res.cov("handler_calls_inside_windows", calls);
    res.cov("errors_reported_inside_windows", errors);
    res.cov("responses_formatted_inside_windows", responses);
    res.cov("windows_by_api", J::Obj(by_api.into_iter().map(|(k, v)| (k.to_string(), J::Int(v as i64))).collect()));
    res.samples.truncate(5);
    let described: Vec<J> = vec![J::s("process::<16>(\"N? 18446744073709551615,-1;:B:C?\\nZZ\\nSYST:ERR?\\n\") in 3+0+9+... byte reads: 0 allocations")];
    res.samples.extend(described.into_iter().take(1));
    res.assumptions = vec!["handler bodies and the harness' recorders allocate only inside the exempt section".into()];
    if calls == 0 || errors == 0 || responses == 0 {
        res.inconclusive = Some("the windows did not see handler calls, errors and responses".into());
    }
    res
}
