//! C01 — a header selects a handler iff it spells the declared short/long forms.
//!
//! For every interface compiled through the real macro: every positive
//! spelling (short / long / optional omitted, several case renderings, with
//! and without leading ':'), near-misses derived from them, and an exhaustive
//! walk over the interface's own vocabulary.  The expectation for every header
//! comes from the independent header matcher (spec.rs) applied to the
//! declaration strings.

use std::collections::{BTreeMap, BTreeSet, HashSet};

use super::Ctx;
use crate::drive::{IfaceDesc, RunSpec, WriterKind};
use crate::ev::{esc, Arg, Leaf, Ty};
use crate::out::{PropResult, Violation, J};
use crate::par;
use crate::prng::{fnv, Rng};
use crate::sem::{check_streams, streams};
use crate::spec::{Model, Target};
use crate::wl::{ErrSpec, Expect, Gen, GenOpts};

#[derive(Default)]
struct Acc {
    res: PropResult,
    by_class: BTreeMap<&'static str, u64>,
    rejected_by_class: BTreeMap<&'static str, u64>,
    decls: u64,
    decls_all_spellings_reached: u64,
    spellings: u64,
    distinct: HashSet<u64>,
    std_present_checked: u64,
    std_absent_checked: u64,
    exhaustive_ifaces: u64,
}

pub fn canonical_lit(ty: Ty) -> (&'static [u8], Arg) {
    match ty {
        Ty::U8 => (b"7", Arg::U8(7)),
        Ty::I8 => (b"-7", Arg::I8(-7)),
        Ty::U16 => (b"7", Arg::U16(7)),
        Ty::I16 => (b"-7", Arg::I16(-7)),
        Ty::U32 => (b"7", Arg::U32(7)),
        Ty::I32 => (b"-7", Arg::I32(-7)),
        Ty::U64 => (b"7", Arg::U64(7)),
        Ty::I64 => (b"-7", Arg::I64(-7)),
        Ty::Usize => (b"7", Arg::Usize(7)),
        Ty::Isize => (b"-7", Arg::Isize(-7)),
        Ty::F32 => (b"1.5", Arg::F32(1.5f32.to_bits())),
        Ty::F64 => (b"-2.25", Arg::F64((-2.25f64).to_bits())),
        Ty::Bool => (b"ON", Arg::Bool(true)),
        Ty::Str => (b"'s'", Arg::Str(b"s".to_vec())),
        Ty::Blk => (b"#11b", Arg::Blk(b"b".to_vec())),
    }
}

struct Tester<'a> {
    iface: &'a IfaceDesc,
    model: Model,
    gen: Gen,
}

impl Tester<'_> {
    /// Runs one header on a fresh device and judges it with the matcher.
    fn test(&self, acc: &mut Acc, class: &'static str, mnems: &[String], query: bool, abs: bool) {
        // only grammatical headers: one common mnemonic, or plain mnemonics joined by ':'
        let stars = mnems.iter().filter(|m| m.starts_with('*')).count();
        if stars > 0 && (mnems.len() > 1 || abs) {
            return;
        }
        let m: Vec<&str> = mnems.iter().map(|s| s.as_str()).collect();
        let resolved = self.model.resolve_all(&m, query);
        let mut input: Vec<u8> = Vec::new();
        if abs {
            input.push(b':');
        }
        input.extend_from_slice(mnems.join(":").as_bytes());
        if query {
            input.push(b'?');
        }
        let expects: Vec<Expect> = match resolved.first() {
            Some(Target::User(di)) => {
                let dd = &self.iface.decls[*di as usize];
                let mut args = Vec::new();
                for (k, t) in dd.params.iter().enumerate() {
                    let (txt, a) = canonical_lit(*t);
                    input.push(if k == 0 { b' ' } else { b',' });
                    input.extend_from_slice(txt);
                    args.push(a);
                }
                self.gen.expect_call(*di as usize, args)
            }
            Some(Target::SystVers) => vec![Expect::Resp(vec![Leaf::Chars(b"1999.0".to_vec())])],
            Some(Target::SystErrNext) => vec![Expect::Resp(vec![Leaf::Int(0), Leaf::Str(vec![])])],
            Some(Target::SystErrCount) => vec![Expect::Resp(vec![Leaf::Int(0)])],
            None => vec![Expect::Err(ErrSpec::Num(-113))],
        };
        input.push(b'\n');
        if !acc.distinct.insert(fnv(&input) ^ fnv(self.iface.name.as_bytes())) {
            return;
        }
        *acc.by_class.entry(class).or_default() += 1;
        if resolved.is_empty() {
            *acc.rejected_by_class.entry(class).or_default() += 1;
        }
        par::case_begin(&input, [0, 0, 0, 0]);
        let out = (self.iface.run)(&RunSpec { inputs: &[&input], writer: WriterKind::Rec(None), pend_seed: 0 });
        par::case_end();
        if out.crashed() {
            acc.res.skipped_crash += 1;
            return;
        }
        acc.res.evaluations += 1;
        let got = streams(&out.log);
        acc.res.sample(|| J::obj(vec![("iface", J::s(self.iface.name)), ("class", J::s(class)), ("input", J::s(esc(&input))), ("matcher", J::s(format!("{:?}", resolved))), ("observed", J::strs(got.show()))]));
        let verdict = if resolved.len() > 1 {
            Err("the matcher resolves this header to two declarations (generator bug: set is not collision-free)".to_string())
        }
        else {
            check_streams(&expects, &got)
        };
        if let Err(e) = verdict {
            let clause = match (resolved.first(), got.calls()) {
                (None, n) if n > 0 => "undeclared-spelling-invokes-a-handler",
                (None, _) => "undeclared-spelling-not-reported-as-one-minus-113",
                (Some(_), 0) => "declared-spelling-not-dispatched",
                (Some(_), _) => "declared-spelling-wrong-outcome",
            };
            acc.res.add_violation(Violation {
                sig: format!("{}/{}", clause, class),
                summary: format!("interface {}: header \"{}\": {}", self.iface.name, esc(&input), e),
                witness: J::obj(vec![
                    ("iface", J::s(self.iface.name)),
                    ("decls", J::strs(self.iface.decls.iter().map(|x| x.cmd.to_string()))),
                    ("std_cmds", self.iface.std_cmds.into()),
                    ("err_cmds", self.iface.err_cmds.into()),
                    ("input", J::s(esc(&input))),
                    ("input_hex", J::s(super::hex(&input))),
                    ("matcher_says", J::s(format!("{:?}", resolved))),
                    ("observed", J::strs(got.show())),
                ]),
            });
        }
    }
}

fn recase(s: &str, mode: u8, rng: &mut Rng) -> String {
    match mode {
        0 => s.to_ascii_uppercase(),
        1 => s.to_ascii_lowercase(),
        _ => s.chars().map(|c| if rng.chance(1, 2) { c.to_ascii_lowercase() } else { c.to_ascii_uppercase() }).collect(),
    }
}

fn iface_shard(ctx: &Ctx, iface: &'static IfaceDesc, idx: usize) -> Acc {
    let mut acc = Acc::default();
    let mut rng = Rng::fork(ctx.seed, 0xC01_0000 + idx as u64);
    let gen = Gen::new(iface, GenOpts::default());
    let model = gen.model.clone();
    let t = Tester { iface, model, gen };
    // vocabulary: every short and long form of every node (common names as they are)
    let mut vocab: BTreeSet<String> = BTreeSet::new();
    let mut max_depth = 1;
    for (d, _) in &t.model.decls {
        max_depth = max_depth.max(d.nodes.len());
        for n in &d.nodes {
            vocab.insert(n.long.clone());
            vocab.insert(n.short.clone());
        }
    }
    let vocab: Vec<String> = vocab.into_iter().collect();

    for (di, (d, _target)) in t.model.decls.clone().iter().enumerate() {
        acc.decls += 1;
        let sps = d.spellings();
        let before = acc.res.violation_count;
        for sp in &sps {
            acc.spellings += 1;
            // 1. positives: case renderings x with/without leading ':'
            for mode in 0..4u8 {
                let m: Vec<String> = sp.iter().map(|s| recase(s, mode.min(2), &mut rng)).collect();
                t.test(&mut acc, "positive", &m, d.query, false);
                if !d.is_common() {
                    t.test(&mut acc, "positive-leading-colon", &m, d.query, true);
                }
            }
            // 2. near misses derived from this spelling
            // query mark flipped
            t.test(&mut acc, "near-miss/query-flipped", sp, !d.query, false);
            // '*' added / removed
            {
                let mut m = sp.clone();
                if m[0].starts_with('*') {
                    m[0] = m[0][1..].to_string();
                }
                else {
                    m[0] = format!("*{}", m[0]);
                }
                t.test(&mut acc, "near-miss/star", &m, d.query, false);
            }
            for k in 0..sp.len() {
                // mnemonic + 1 char
                for extra in ["X", "1", "_"] {
                    let mut m = sp.clone();
                    m[k].push_str(extra);
                    t.test(&mut acc, "near-miss/extra-char", &m, d.query, false);
                }
                // doubled / dropped level
                let mut m = sp.clone();
                m.insert(k, sp[k].clone());
                t.test(&mut acc, "near-miss/doubled-level", &m, d.query, false);
                if sp.len() > 1 {
                    let mut m = sp.clone();
                    m.remove(k);
                    t.test(&mut acc, "near-miss/dropped-level", &m, d.query, false);
                }
                if k + 1 < sp.len() {
                    let mut m = sp.clone();
                    m.swap(k, k + 1);
                    t.test(&mut acc, "near-miss/swapped-levels", &m, d.query, false);
                }
                // a sibling declaration's node spliced in
                let other = rng.pick(&vocab).clone();
                let mut m = sp.clone();
                m[k] = other;
                t.test(&mut acc, "near-miss/spliced-node", &m, d.query, false);
            }
            // extra leading / trailing level
            let mut m = sp.clone();
            m.insert(0, rng.pick(&vocab).clone());
            t.test(&mut acc, "near-miss/extra-leading-level", &m, d.query, false);
            let mut m = sp.clone();
            m.push(rng.pick(&vocab).clone());
            t.test(&mut acc, "near-miss/extra-trailing-level", &m, d.query, false);
        }
        // intermediate abbreviations of every node, in the context of the all-long spelling
        let long_sp: Vec<String> = d.nodes.iter().map(|n| n.long.clone()).collect();
        for (k, n) in d.nodes.iter().enumerate() {
            let star = n.long.starts_with('*');
            let body = if star { &n.long[1..] } else { &n.long[..] };
            for cut in 1..body.len() {
                let cand = format!("{}{}", if star { "*" } else { "" }, &body[..cut]);
                if cand == n.short || cand == n.long {
                    continue;
                }
                let mut m = long_sp.clone();
                m[k] = cand;
                t.test(&mut acc, "near-miss/intermediate-abbreviation", &m, d.query, false);
            }
            // non-prefix short forms: long minus one letter, short plus one letter
            for drop in 0..n.long.len() {
                let mut cand = n.long.clone();
                cand.remove(drop);
                if cand.is_empty() || cand == n.short || cand == "*" || !cand.trim_start_matches('*').chars().next().map(|c| c.is_ascii_alphabetic()).unwrap_or(false) {
                    continue;
                }
                let mut m = long_sp.clone();
                m[k] = cand;
                t.test(&mut acc, "near-miss/letter-dropped", &m, d.query, false);
            }
        }
        if acc.res.violation_count == before {
            acc.decls_all_spellings_reached += 1;
        }
        let _ = di;
    }

    // 3. exhaustive walk over the vocabulary up to depth max_depth + 1
    let depth = (max_depth + 1).min(5);
    let mut total: u128 = 0;
    for l in 1..=depth {
        total += (vocab.len() as u128).pow(l as u32) * 2;
    }
    let cap: u128 = if ctx.thorough { 60_000 } else { 8_000 };
    if total <= cap {
        acc.exhaustive_ifaces += 1;
        let mut idx = vec![0usize; 1];
        loop {
            let m: Vec<String> = idx.iter().map(|i| vocab[*i].clone()).collect();
            t.test(&mut acc, "vocabulary-walk", &m, false, false);
            t.test(&mut acc, "vocabulary-walk", &m, true, false);
            // increment
            let mut k = idx.len();
            loop {
                if k == 0 {
                    idx = vec![0; idx.len() + 1];
                    break;
                }
                k -= 1;
                idx[k] += 1;
                if idx[k] < vocab.len() {
                    break;
                }
                idx[k] = 0;
            }
            if idx.len() > depth {
                break;
            }
        }
    }
    else {
        for _ in 0..cap / 2 {
            let l = rng.range(1, depth);
            let m: Vec<String> = (0..l).map(|_| rng.pick(&vocab).clone()).collect();
            let q = rng.chance(1, 2);
            t.test(&mut acc, "vocabulary-walk-sampled", &m, q, rng.chance(1, 4));
        }
    }

    // 4. the standard commands exist exactly when requested
    for (hdr, q) in [
        (vec!["SYSTEM", "VERSION"], true),
        (vec!["SYST", "VERS"], true),
        (vec!["SYSTEM", "ERROR"], true),
        (vec!["SYST", "ERR", "NEXT"], true),
        (vec!["SYSTEM", "ERROR", "COUNT"], true),
        (vec!["SYST", "ERR", "COUN"], true),
        (vec!["SYSTEM", "VERSION"], false),
        (vec!["SYST", "ERR", "COUN"], false),
    ] {
        let m: Vec<String> = hdr.iter().map(|s| s.to_string()).collect();
        let mm: Vec<&str> = m.iter().map(|s| s.as_str()).collect();
        if t.model.resolve(&mm, q).is_some() {
            acc.std_present_checked += 1;
        }
        else {
            acc.std_absent_checked += 1;
        }
        t.test(&mut acc, "standard-commands", &m, q, false);
    }
    acc
}

fn canary() -> Result<(), String> {
    use crate::sem::{Sem, Streams};
    let exp_none = vec![Expect::Err(ErrSpec::Num(-113))];
    let called = Streams { ce: vec![Sem::Call { h: 0, args: vec![], ok: true }], out: vec![] };
    let silent = Streams::default();
    let one = Streams { ce: vec![Sem::Err { num: -113, text: "Undefined header".into(), dbg: String::new() }], out: vec![] };
    if check_streams(&exp_none, &called).is_ok() || check_streams(&exp_none, &silent).is_ok() || check_streams(&exp_none, &one).is_err() {
        return Err("C01 canary: oracle misjudged fabricated logs".into());
    }
    let d = crate::spec::parse_decl("SYSTem:ERRor:[NEXT]?");
    if d.matches(&["SYSTE", "ERR"], true) || !d.matches(&["syst", "ERROR", "next"], true) || d.matches(&["SYST", "ERR"], false) {
        return Err("C01 canary: header matcher wrong".into());
    }
    Ok(())
}

pub fn run(ctx: &Ctx) -> PropResult {
    let mut res = PropResult::default();
    if let Err(e) = canary() {
        res.inconclusive = Some(e);
        return res;
    }
    let all: Vec<&'static IfaceDesc> = ctx.ifaces.clone();
    let accs = par::run_shards(all.len(), ctx.threads, |i| iface_shard(ctx, all[i], i), |h| ctx.on_hang(h));
    let mut by_class: BTreeMap<&'static str, u64> = BTreeMap::new();
    let mut rej: BTreeMap<&'static str, u64> = BTreeMap::new();
    let (mut decls, mut reached, mut spellings, mut distinct, mut sp, mut sa, mut exi) = (0, 0, 0, 0u64, 0, 0, 0);
    for acc in accs {
        for (k, v) in acc.by_class {
            *by_class.entry(k).or_default() += v;
        }
        for (k, v) in acc.rejected_by_class {
            *rej.entry(k).or_default() += v;
        }
        decls += acc.decls;
        reached += acc.decls_all_spellings_reached;
        spellings += acc.spellings;
        distinct += acc.distinct.len() as u64;
        sp += acc.std_present_checked;
        sa += acc.std_absent_checked;
        exi += acc.exhaustive_ifaces;
        res.merge(acc.res);
    }
    res.distinct = distinct;
    res.rule = format!(
        "{} interfaces compiled through the macro ({} declarations incl. requested standard commands, {} spellings): every spelling x 4 case renderings x with/without ':'; near-misses (query flipped, '*' added/removed, extra char, doubled/dropped/swapped/extra levels, spliced node, every intermediate abbreviation, every single-letter deletion); walk over all vocabulary sequences up to depth+1 (exhaustive for {} interfaces, sampled otherwise); standard-command presence/absence. distinct = distinct (interface, header line) pairs; each is one fresh run",
        all.len(),
        decls,
        spellings,
        exi
    );
    res.cov("programs", all.len());
    res.cov("declarations", decls);
    res.cov("declarations_reached_by_all_their_spellings_and_near_misses_ok", reached);
    res.cov("spellings", spellings);
    res.cov("headers_by_class", J::Obj(by_class.into_iter().map(|(k, v)| (k.to_string(), J::Int(v as i64))).collect()));
    res.cov("headers_the_matcher_rejects_by_class", J::Obj(rej.into_iter().map(|(k, v)| (k.to_string(), J::Int(v as i64))).collect()));
    res.cov("standard_command_headers_expected_present", sp);
    res.cov("standard_command_headers_expected_absent", sa);
    res.samples.truncate(5);
    let described: Vec<J> = vec![J::s("SYSTE:ERR?  (intermediate abbreviation -> exactly one -113)"), J::s(":tst:A?  (optional node omitted, short form, lower case)")];
    res.samples.extend(described.into_iter().take(1));
    res.assumptions = vec![
        "declarations are ASCII, every short form starts with a letter, no declaration collides with itself (generator filter)".into(),
        "the header matcher in spec.rs is the reading of the property statement".into(),
    ];
    if decls == 0 || res.evaluations == 0 {
        res.inconclusive = Some("nothing observed".into());
    }
    res
}
