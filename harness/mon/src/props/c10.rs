//! C10 — process answers before it reads on, and ends only on a transport error.
//!
//! Fault enumeration: for every (stream, chunking) one fault-free run learns
//! the length T of the transport call trace, then T runs inject a unique error
//! token at call index k = 0..T-1 (every read, write and flush position).
//! The oracle works on the ordered Adapter trace only.

use std::collections::{BTreeMap, HashSet};

use super::c05::random_chunks;
use super::{hex, Ctx};
use crate::drive::{IfaceDesc, ProcSpec, RunOut};
use crate::ev::{esc, Ev, Leaf};
use crate::io::{TOKEN_AFTER, TOKEN_EOS, TOKEN_FAULT_BASE};
use crate::out::{PropResult, Violation, J};
use crate::par;
use crate::prng::{fnv, Rng};
use crate::spec::{decode_response, match_leaves};
use crate::wl::{Expect, Fault, Gen, GenOpts, LitOpts, Style};

#[derive(Default)]
struct Acc {
    res: PropResult,
    distinct: HashSet<u64>,
    fault_positions: BTreeMap<&'static str, u64>,
    traces: u64,
    reads_checked: u64,
    responses_seen: u64,
    pend_runs: u64,
    msgs_without_response: u64,
    streams_with_oversized_answer: u64,
    reference_mismatch: u64,
}

struct Stream {
    bytes: Vec<u8>,
    /// end offset (exclusive) of every message in `bytes`
    ends: Vec<usize>,
    /// responses each message owes
    resps: Vec<Vec<Vec<Leaf>>>,
    /// the same as bytes (from a reference execution), one entry per response, and whether
    /// all responses of the message together fit N
    ref_resps: Vec<Vec<Vec<u8>>>,
    fits: Vec<bool>,
}

/// Trace oracle.  Returns Err((clause, detail)).
///
/// `s.ref_resps[i]` are the responses message i owes (bytes taken from a reference
/// execution through `run`, decoded and matched against the generator-side
/// expectation beforehand); `s.fits[i]` says whether together they fit the N-byte
/// response buffer.  Between two reads the transport must have been given exactly
/// the responses of the messages completed by the earlier read, flushed; of a
/// message whose answers do not fit (an error is reported instead) any answer may
/// be missing, but nothing that is not a complete answer may be written.
fn check_trace(s: &Stream, out: &RunOut, fault_at: Option<usize>) -> Result<(u64, u64), (String, String)> {
    let mut delivered = 0usize;
    let mut w: Vec<u8> = Vec::new(); // written since the last read
    let mut unflushed = false;
    let mut errored: Option<u32> = None;
    let mut reads = 0u64;
    let mut resp_seen = 0u64;
    let mut next_msg = 0usize;
    let mut partial = 0usize;
    let mut proc_ret: Option<(bool, u32)> = None;
    // accounts for the bytes in `w` against the messages completed so far: the answers of a
    // message that fits must all be there; of a message whose answers do not all fit the N-byte
    // buffer any of its answers may be missing (an error is reported instead), but nothing
    // else may be written - no fragment of an answer, no other bytes
    fn place(w: &[u8], pos: usize, items: &[(bool, &[u8])], budget: &mut u32) -> bool {
        if *budget == 0 {
            return true; // search cut off: never turn a timeout into a violation
        }
        *budget -= 1;
        match items.first() {
            None => pos == w.len(),
            Some((must, r)) => {
                if w.len() >= pos + r.len() && &w[pos..pos + r.len()] == *r && place(w, pos + r.len(), &items[1..], budget) {
                    return true;
                }
                !*must && place(w, pos, &items[1..], budget)
            }
        }
    }
    // `partial`: how many answers of the message that is still arriving have already been sent
    // (a message is executed unit by unit when a newline inside a payload splits it)
    let settle = |w: &[u8], next_msg: &mut usize, partial: &mut usize, delivered: usize, reads: u64, resp_seen: &mut u64| -> Result<(), (String, String)> {
        let done = s.ends.iter().filter(|end| **end <= delivered).count();
        let mut items: Vec<(bool, &[u8])> = Vec::new();
        for m in *next_msg..done {
            let skip = if m == *next_msg { *partial } else { 0 };
            for r in s.ref_resps[m].iter().skip(skip) {
                items.push((s.fits[m], &r[..]));
            }
        }
        // answers of the message that has started to arrive but is not complete may already be there
        let started = done < s.ends.len() && delivered > if done == 0 { 0 } else { s.ends[done - 1] };
        let skip = if done == *next_msg { *partial } else { 0 };
        let opt: Vec<&[u8]> = if started { s.ref_resps[done].iter().skip(skip).map(|r| &r[..]).collect() } else { vec![] };
        // prefer the reading in which as few answers as possible were sent early
        for k in 0..=opt.len() {
            let mut all = items.clone();
            for r in &opt[..k] {
                // of a message whose answers do not fit N any answer may be missing
                all.push((s.fits[done], *r));
            }
            let mut budget = 200_000u32;
            if place(w, 0, &all, &mut budget) {
                *resp_seen += items.iter().filter(|i| i.0).count() as u64;
                *partial = if done == *next_msg { *partial + k } else { k };
                *next_msg = done;
                return Ok(());
            }
        }
        let owed: Vec<String> = items.iter().map(|(must, r)| format!("{}{}", if *must { "" } else { "(optional: its message overflows the buffer) " }, esc(r))).collect();
        let must_total: usize = items.iter().filter(|i| i.0).map(|i| i.1.len()).sum();
        let clause = if w.len() < must_total {
            "read-before-due-response-was-written"
        }
        else if items.is_empty() && opt.is_empty() {
            "wrote-although-no-response-is-due"
        }
        else {
            "written-bytes-are-not-the-due-responses"
        };
        Err((
            clause.into(),
            format!("before read #{}: the completed messages owe {:?}, the transport was given \"{}\" since the previous read", reads + 1, owed, esc(w)),
        ))
    };
    for (i, e) in out.log.iter().enumerate() {
        let is_transport = matches!(e, Ev::Read { .. } | Ev::AWrite(_) | Ev::AFlush | Ev::AErr { .. });
        if is_transport {
            if let Some(tok) = errored {
                return Err(("transport-call-after-error".into(), format!("event {} ({}) after the transport returned error token {}", i, e.show(), tok)));
            }
        }
        match e {
            Ev::Read { n, .. } => {
                settle(&w, &mut next_msg, &mut partial, delivered, reads, &mut resp_seen)?;
                if unflushed {
                    return Err(("read-before-flush".into(), format!("read #{} issued with written bytes not flushed", reads + 1)));
                }
                w.clear();
                reads += 1;
                delivered += *n;
            }
            Ev::AWrite(b) => {
                // (a write of zero bytes gives the transport nothing: neither demanded nor forbidden)
                w.extend_from_slice(b);
                if !b.is_empty() {
                    unflushed = true;
                }
            }
            Ev::AFlush => unflushed = false,
            Ev::AErr { token, kind, .. } => {
                if *token == TOKEN_AFTER {
                    return Err(("transport-call-after-error".into(), format!("event {}: transport called again after an error", i)));
                }
                if *kind == 0 {
                    // the failing call was a read: everything due must have been sent before it
                    settle(&w, &mut next_msg, &mut partial, delivered, reads, &mut resp_seen)?;
                    if unflushed {
                        return Err(("read-before-flush".into(), "a read was issued with written bytes not flushed".into()));
                    }
                }
                errored = Some(*token);
            }
            Ev::ProcRet { ok, token } => proc_ret = Some((*ok, *token)),
            _ => {}
        }
    }
    match (proc_ret, errored) {
        (Some((true, _)), _) => return Err(("process-returned-ok".into(), "process returned Ok(())".into())),
        (Some((false, t)), Some(e)) => {
            if t != e {
                return Err(("error-not-returned-unchanged".into(), format!("transport returned token {}, process returned {}", e, t)));
            }
        }
        (Some((false, t)), None) => return Err(("process-invented-an-error".into(), format!("process returned Err({}) although the transport never failed", t))),
        (None, _) => return Err(("process-did-not-return".into(), "no ProcRet event".into())),
    }
    if let Some(k) = fault_at {
        if errored != Some(TOKEN_FAULT_BASE + k as u32) && errored != Some(TOKEN_EOS) {
            return Err(("wrong-token".into(), format!("expected token {} got {:?}", TOKEN_FAULT_BASE + k as u32, errored)));
        }
    }
    else if next_msg != s.ends.len() {
        return Err(("response-missing-at-end-of-stream".into(), format!("{} of {} messages accounted for", next_msg, s.ends.len())));
    }
    Ok((reads, resp_seen))
}

fn make_stream(gen: &Gen, rng: &mut Rng, acc: &mut Acc) -> Stream {
    let mut bytes = Vec::new();
    let mut ends = Vec::new();
    let mut resps = Vec::new();
    for _ in 0..rng.range(1, 5) {
        let m = if rng.chance(1, 5) {
            let f = *rng.pick(&[Fault::WrongKind, Fault::TooFew, Fault::OutOfRange, Fault::Handler, Fault::UnknownMnem, Fault::BadSep]);
            gen.faulty_msg(f, 2, rng).unwrap_or_else(|| gen.valid_msg(rng))
        }
        else {
            gen.valid_msg(rng)
        };
        let mut st = Style::plain();
        st.seed = rng.next();
        bytes.extend_from_slice(&m.render(&st));
        ends.push(bytes.len());
        // responses owed: those of the units that execute.  After a parse-level
        // fault nothing more of the message runs; after an execute-level fault the
        // rest runs (both implementations are allowed by C06, the library does the latter).
        let mut r = Vec::new();
        for u in &m.units {
            for e in &u.expects {
                if let Expect::Resp(l) = e {
                    r.push(l.clone());
                }
            }
            if u.fault.map(|f| f.parse_level()).unwrap_or(false) {
                break;
            }
        }
        if r.is_empty() {
            acc.msgs_without_response += 1;
        }
        resps.push(r);
    }
    Stream { bytes, ends, resps, ref_resps: vec![], fits: vec![] }
}

fn shard(ctx: &Ctx, ifaces: &[&'static IfaceDesc], shard: usize, cases: u64) -> Acc {
    let mut acc = Acc::default();
    let mut rng = Rng::fork(ctx.seed, 0xC10_0000 + shard as u64);
    for case in 0..cases {
        let iface = *rng.pick(ifaces);
        let gen = Gen::new(
            iface,
            GenOpts { lit: LitOpts { payload_newline: rng.chance(1, 4), wild_payload: false, max_payload: 5 }, max_units: 3, trailing_semicolon_16: 1, ..Default::default() },
        );
        let mut s = make_stream(&gen, &mut rng, &mut acc);
        // N holds every message; an answer may or may not fit (then an error is reported instead)
        let ns = (iface.ns)();
        let longest = s.ends.iter().scan(0usize, |prev, e| { let l = *e - *prev; *prev = *e; Some(l) }).max().unwrap_or(0);
        let cands: Vec<usize> = ns.iter().copied().filter(|n| *n > longest).collect();
        if cands.is_empty() {
            continue;
        }
        let n = if rng.chance(1, 2) { cands[0] } else { *rng.pick(&cands) };
        // reference: the messages one at a time through run; its bytes are decoded and matched
        // against the generator-side expectation, then used as the due responses
        {
            let mut msgs: Vec<&[u8]> = Vec::new();
            let mut prev = 0usize;
            for e in &s.ends {
                msgs.push(&s.bytes[prev..*e]);
                prev = *e;
            }
            let rf = (iface.run)(&crate::drive::RunSpec { inputs: &msgs, writer: crate::drive::WriterKind::Rec(None), pend_seed: 0 });
            if rf.crashed() {
                acc.res.skipped_crash += 1;
                continue;
            }
            let mut cur: Vec<u8> = Vec::new();
            let mut per: Vec<Vec<u8>> = Vec::new();
            let mut started = false;
            for e in &rf.log {
                match e {
                    Ev::Mark(_) => {
                        if started {
                            per.push(std::mem::take(&mut cur));
                        }
                        started = true;
                    }
                    Ev::Write(b) => cur.extend_from_slice(b),
                    _ => {}
                }
            }
            per.push(cur);
            let mut ok = per.len() == s.ends.len();
            let mut split: Vec<Vec<Vec<u8>>> = Vec::new();
            if ok {
                for (m, bytes) in per.iter().enumerate() {
                    let mut pos = 0usize;
                    let mut parts: Vec<Vec<u8>> = Vec::new();
                    for want in &s.resps[m] {
                        match decode_response(&bytes[pos.min(bytes.len())..]) {
                            Ok((toks, used)) if match_leaves(&toks, want).is_ok() => {
                                parts.push(bytes[pos..pos + used].to_vec());
                                pos += used;
                            }
                            _ => ok = false,
                        }
                    }
                    if pos != bytes.len() {
                        ok = false;
                    }
                    split.push(parts);
                }
            }
            if !ok {
                // the reference itself is wrong: C04 / C06 territory, not this property's
                acc.reference_mismatch += 1;
                continue;
            }
            s.fits = per.iter().map(|b| b.len() <= n).collect();
            s.ref_resps = split;
        }
        if s.fits.iter().any(|f| !*f) {
            acc.streams_with_oversized_answer += 1;
        }
        acc.distinct.insert(fnv(&s.bytes));
        par::case_begin(&s.bytes, [shard as u64, case, 0, 0]);
        for chunking in 0..3 {
            let chunks = match chunking {
                0 => vec![],
                1 => vec![1; s.bytes.len()],
                _ => random_chunks(&mut rng, s.bytes.len()),
            };
            for pend in [0u64, rng.next() | 1] {
                if pend != 0 && chunking != 2 {
                    continue;
                }
                let free = (iface.process)(&ProcSpec { stream: &s.bytes, n, chunks: &chunks, pend_seed: pend, fault_at: None });
                if free.panic.is_some() && !free.harness_abort() || free.stuck {
                    acc.res.skipped_crash += 1;
                    continue;
                }
                let t = free.log.iter().filter(|e| matches!(e, Ev::Read { .. } | Ev::AWrite(_) | Ev::AFlush | Ev::AErr { .. })).count();
                let mut runs: Vec<(Option<usize>, RunOut)> = vec![(None, free)];
                for k in 0..t {
                    let out = (iface.process)(&ProcSpec { stream: &s.bytes, n, chunks: &chunks, pend_seed: pend, fault_at: Some(k) });
                    runs.push((Some(k), out));
                }
                for (fault_at, out) in runs {
                    if (out.panic.is_some() && !out.harness_abort()) || out.stuck {
                        acc.res.skipped_crash += 1;
                        continue;
                    }
                    acc.res.evaluations += 1;
                    acc.traces += 1;
                    if fault_at.is_some() {
                        acc.res.sample(|| J::obj(vec![("iface", J::s(iface.name)), ("stream", J::s(esc(&s.bytes))), ("n", n.into()), ("fault_at_call", fault_at.map(|k| J::Int(k as i64)).unwrap_or(J::Null)), ("trace", J::strs(out.log.iter().filter(|e| !matches!(e, Ev::Enter { .. } | Ev::Exit { .. })).map(|e| e.show())))]));
                    }
                    if pend != 0 {
                        acc.pend_runs += 1;
                    }
                    if let Some(_k) = fault_at {
                        // which kind of call was hit
                        if let Some(Ev::AErr { kind, token, .. }) = out.log.iter().find(|e| matches!(e, Ev::AErr { .. })) {
                            if *token >= TOKEN_FAULT_BASE {
                                *acc.fault_positions.entry(match kind { 0 => "read", 1 => "write", _ => "flush" }).or_default() += 1;
                            }
                        }
                    }
                    let verdict = if out.harness_abort() {
                        Err(("transport-call-after-error".to_string(), "the transport was called more than 40 times after it had returned an error".to_string()))
                    }
                    else {
                        check_trace(&s, &out, fault_at)
                    };
                    match verdict {
                        Ok((reads, resp)) => {
                            acc.reads_checked += reads;
                            acc.responses_seen += resp;
                        }
                        Err((clause, detail)) => {
                            acc.res.add_violation(Violation {
                                sig: format!("{}/{}", clause, if fault_at.is_some() { "injected-fault" } else { "fault-free" }),
                                summary: format!("process::<{}> on \"{}\" (fault at call {:?}): {}", n, esc(&s.bytes[..s.bytes.len().min(80)]), fault_at, detail),
                                witness: J::obj(vec![
                                    ("iface", J::s(iface.name)),
                                    ("decls", J::strs(iface.decls.iter().map(|x| x.cmd.to_string()))),
                                    ("stream", J::s(esc(&s.bytes))),
                                    ("stream_hex", J::s(hex(&s.bytes))),
                                    ("n", n.into()),
                                    ("chunks", J::Arr(chunks.iter().take(64).map(|c| J::Int(if *c == usize::MAX { -1 } else { *c as i64 })).collect())),
                                    ("pend_seed", pend.into()),
                                    ("fault_at_call", fault_at.map(|k| J::Int(k as i64)).unwrap_or(J::Null)),
                                    ("trace", J::strs(out.log.iter().filter(|e| !matches!(e, Ev::Enter { .. } | Ev::Exit { .. })).map(|e| e.show()))),
                                ]),
                            });
                        }
                    }
                }
            }
        }
        par::case_end();
    }
    acc
}

fn canary() -> Result<(), String> {
    let s = Stream { bytes: b"A?\nA\n".to_vec(), ends: vec![3, 5], resps: vec![vec![vec![Leaf::Int(7)]], vec![]], ref_resps: vec![vec![b"7\n".to_vec()], vec![]], fits: vec![true, true] };
    let mk = |log: Vec<Ev>| RunOut { log, ..Default::default() };
    let good = mk(vec![
        Ev::Read { cap: 16, n: 3 },
        Ev::AWrite(b"7\n".to_vec()),
        Ev::AFlush,
        Ev::Read { cap: 16, n: 2 },
        Ev::AErr { token: TOKEN_EOS, call: 4, kind: 0 },
        Ev::ProcRet { ok: false, token: TOKEN_EOS },
    ]);
    let late = mk(vec![
        Ev::Read { cap: 16, n: 3 },
        Ev::Read { cap: 13, n: 2 },
        Ev::AWrite(b"7\n".to_vec()),
        Ev::AFlush,
        Ev::AErr { token: TOKEN_EOS, call: 4, kind: 0 },
        Ev::ProcRet { ok: false, token: TOKEN_EOS },
    ]);
    let noflush = mk(vec![
        Ev::Read { cap: 16, n: 3 },
        Ev::AWrite(b"7\n".to_vec()),
        Ev::Read { cap: 16, n: 2 },
        Ev::AErr { token: TOKEN_EOS, call: 3, kind: 0 },
        Ev::ProcRet { ok: false, token: TOKEN_EOS },
    ]);
    let okret = mk(vec![Ev::Read { cap: 16, n: 3 }, Ev::AWrite(b"7\n".to_vec()), Ev::AFlush, Ev::ProcRet { ok: true, token: 0 }]);
    if check_trace(&s, &good, None).is_err()
        || check_trace(&s, &late, None).is_ok()
        || check_trace(&s, &noflush, None).is_ok()
        || check_trace(&s, &okret, None).is_ok()
    {
        return Err("C10 canary: trace oracle misjudged fabricated traces".into());
    }
    Ok(())
}

pub fn run(ctx: &Ctx) -> PropResult {
    let mut res = PropResult::default();
    if let Err(e) = canary() {
        res.inconclusive = Some(e);
        return res;
    }
    let mut all: Vec<&'static IfaceDesc> = ctx.built(&["mini", "qdev2"]);
    all.extend(ctx.random_ifaces().into_iter().filter(|i| i.decls.iter().any(|d| d.cmd.ends_with('?'))));
    let shards = 64usize;
    let cases = ctx.scaled(if ctx.thorough { 4_000 } else { 300 });
    let accs = par::run_shards(shards, ctx.threads, |i| shard(ctx, &all, i, cases), |h| ctx.on_hang(h));
    let mut distinct = HashSet::new();
    let mut fp: BTreeMap<&'static str, u64> = BTreeMap::new();
    let (mut traces, mut reads, mut resp, mut pend, mut nor) = (0, 0, 0, 0, 0);
    let (mut oversized, mut refbad) = (0, 0);
    for acc in accs {
        distinct.extend(acc.distinct);
        for (k, v) in acc.fault_positions {
            *fp.entry(k).or_default() += v;
        }
        traces += acc.traces;
        reads += acc.reads_checked;
        resp += acc.responses_seen;
        pend += acc.pend_runs;
        nor += acc.msgs_without_response;
        oversized += acc.streams_with_oversized_answer;
        refbad += acc.reference_mismatch;
        res.merge(acc.res);
    }
    res.distinct = distinct.len() as u64;
    res.rule = format!(
        "streams of 1..5 messages (queries and commands mixed, several queries per message, execute-level and parse-level faults) over {} interfaces, N large enough for every message and answer, 3 chunkings (one read, byte-wise, random with zero-length reads) + Pending injection; per (stream, chunking): one fault-free trace of length T, then T runs with a unique error token injected at transport call k = 0..T-1. distinct = distinct streams; evaluations = traces judged",
        all.len()
    );
    res.cov("traces_judged", traces);
    res.cov("fault_positions_by_call_kind", J::Obj(fp.iter().map(|(k, v)| (k.to_string(), J::Int(*v as i64))).collect()));
    res.cov("read_events_checked_for_due_responses", reads);
    res.cov("responses_decoded_and_matched", resp);
    res.cov("traces_with_pending_injection", pend);
    res.cov("messages_without_response", nor);
    res.cov("streams_with_an_answer_larger_than_n", oversized);
    res.cov("streams_skipped_because_the_reference_run_disagreed_with_the_expectation", refbad);
    res.samples.truncate(5);
    let described: Vec<J> = vec![J::s("stream \"A?;B:C?\\nA\\n\" byte-wise, error token 1007 injected at transport call 7 (a flush)")];
    res.samples.extend(described.into_iter().take(1));
    res.assumptions = vec![
        "a quarter of the streams carry newlines inside string/block payloads (the message is then executed in pieces and its answers may be sent as they become available); of a message whose answers do not fit N any answer may be missing (an error is reported instead), but only complete answers may be written".into(),
        "the due responses are the bytes of a reference execution through run, decoded and matched against the generator-side expectation; the write segmentation is free".into(),
    ];
    if fp.get("read").copied().unwrap_or(0) == 0 || fp.get("write").copied().unwrap_or(0) == 0 || fp.get("flush").copied().unwrap_or(0) == 0 || resp == 0 {
        res.inconclusive = Some("a transport call kind was never hit by an injected fault".into());
    }
    res
}
