//! C10 — process answers before it reads on, and ends only on a transport error.
//!
//! Fault enumeration: for every (stream, chunking) one fault-free run learns
//! the length T of the transport call trace, then T runs inject a unique error
//! token at call index k = 0..T-1 (every read, write and flush position).
//! The oracle works on the ordered Adapter trace only.

use std::collections::{BTreeMap, HashSet};

use super::c05::random_chunks;
use super::{hex, Ctx};
use crate::drive::{IfaceDesc, ProcSpec, RunOut};
use crate::ev::{esc, Ev, Leaf};
use crate::io::{TOKEN_AFTER, TOKEN_EOS, TOKEN_FAULT_BASE};
use crate::out::{PropResult, Violation, J};
use crate::par;
use crate::prng::{fnv, Rng};
use crate::spec::{decode_response, match_leaves};
use crate::wl::{Expect, Fault, Gen, GenOpts, LitOpts, Style};

#[derive(Default)]
struct Acc {
    res: PropResult,
    distinct: HashSet<u64>,
    fault_positions: BTreeMap<&'static str, u64>,
    traces: u64,
    reads_checked: u64,
    responses_seen: u64,
    pend_runs: u64,
    msgs_without_response: u64,
}

struct Stream {
    bytes: Vec<u8>,
    /// end offset (exclusive) of every message in `bytes`
    ends: Vec<usize>,
    /// responses each message owes
    resps: Vec<Vec<Vec<Leaf>>>,
}

/// Trace oracle.  Returns Err((clause, detail)).
fn check_trace(s: &Stream, out: &RunOut, fault_at: Option<usize>) -> Result<(u64, u64), (String, String)> {
    let mut delivered = 0usize;
    let mut written: Vec<u8> = Vec::new();
    let mut flushed_upto = 0usize;
    let mut errored: Option<u32> = None;
    let mut reads = 0u64;
    let mut resp_seen = 0u64;
    let mut proc_ret: Option<(bool, u32)> = None;
    let all: Vec<&Vec<Leaf>> = s.resps.iter().flat_map(|m| m.iter()).collect();
    for (i, e) in out.log.iter().enumerate() {
        let is_transport = matches!(e, Ev::Read { .. } | Ev::AWrite(_) | Ev::AFlush | Ev::AErr { .. });
        if is_transport {
            if let Some(tok) = errored {
                return Err(("transport-call-after-error".into(), format!("event {} ({}) after the transport returned error token {}", i, e.show(), tok)));
            }
        }
        match e {
            Ev::Read { n, .. } => {
                reads += 1;
                // everything that is due must have been written and flushed
                let due_msgs = s.ends.iter().filter(|end| **end <= delivered).count();
                let due: Vec<&Vec<Leaf>> = s.resps[..due_msgs].iter().flat_map(|m| m.iter()).collect();
                // decode what has been written so far
                let mut pos = 0usize;
                let mut k = 0usize;
                while pos < written.len() {
                    let (toks, used) = decode_response(&written[pos..]).map_err(|m| ("written-bytes-are-not-responses".to_string(), format!("at read #{}: {}", reads, m)))?;
                    let want = all.get(k).ok_or_else(|| ("wrote-more-than-the-responses".to_string(), format!("at read #{}: extra response \"{}\"", reads, esc(&written[pos..pos + used]))))?;
                    match_leaves(&toks, want).map_err(|m| ("response-does-not-match".to_string(), format!("response #{}: {}", k, m)))?;
                    pos += used;
                    k += 1;
                }
                if k < due.len() {
                    return Err((
                        "read-before-due-response-was-written".into(),
                        format!("read #{} issued although {} of {} due responses have not been written", reads, due.len() - k, due.len()),
                    ));
                }
                // upper bound: nothing can be answered before it has (at least partly) arrived
                let started = s.ends.iter().enumerate().filter(|(i, _)| delivered > if *i == 0 { 0 } else { s.ends[*i - 1] }).count();
                let may: usize = s.resps[..started.min(s.resps.len())].iter().map(|m| m.len()).sum();
                if k > may {
                    return Err(("response-written-before-its-message-arrived".into(), format!("at read #{}: {} responses written, at most {} can have been asked for", reads, k, may)));
                }
                if flushed_upto < written.len() {
                    return Err(("read-before-flush".into(), format!("read #{} issued with {} written bytes not flushed", reads, written.len() - flushed_upto)));
                }
                resp_seen = k as u64;
                delivered += *n;
            }
            Ev::AWrite(b) => {
                if b.is_empty() {
                    return Err(("empty-write".into(), "the transport was asked to write zero bytes".into()));
                }
                written.extend_from_slice(b);
            }
            Ev::AFlush => flushed_upto = written.len(),
            Ev::AErr { token, .. } => {
                if *token == TOKEN_AFTER {
                    return Err(("transport-call-after-error".into(), format!("event {}: transport called again after an error", i)));
                }
                errored = Some(*token);
            }
            Ev::ProcRet { ok, token } => proc_ret = Some((*ok, *token)),
            _ => {}
        }
    }
    match (proc_ret, errored) {
        (Some((true, _)), _) => return Err(("process-returned-ok".into(), "process returned Ok(())".into())),
        (Some((false, t)), Some(e)) => {
            if t != e {
                return Err(("error-not-returned-unchanged".into(), format!("transport returned token {}, process returned {}", e, t)));
            }
        }
        (Some((false, t)), None) => return Err(("process-invented-an-error".into(), format!("process returned Err({}) although the transport never failed", t))),
        (None, _) => return Err(("process-did-not-return".into(), "no ProcRet event".into())),
    }
    if let Some(k) = fault_at {
        if errored != Some(TOKEN_FAULT_BASE + k as u32) && errored != Some(TOKEN_EOS) {
            return Err(("wrong-token".into(), format!("expected token {} got {:?}", TOKEN_FAULT_BASE + k as u32, errored)));
        }
    }
    else {
        // fault-free: the stream ran to its end, so every response must have been written and flushed
        let mut pos = 0usize;
        let mut k = 0usize;
        while pos < written.len() {
            let (toks, used) = decode_response(&written[pos..]).map_err(|m| ("written-bytes-are-not-responses".to_string(), m))?;
            let want = all.get(k).ok_or_else(|| ("wrote-more-than-the-responses".to_string(), "extra response at the end".to_string()))?;
            match_leaves(&toks, want).map_err(|m| ("response-does-not-match".to_string(), m))?;
            pos += used;
            k += 1;
        }
        if k != all.len() {
            return Err(("response-missing-at-end-of-stream".into(), format!("{} of {} responses written", k, all.len())));
        }
        if flushed_upto != written.len() {
            return Err(("final-response-not-flushed".into(), "bytes written but never flushed".into()));
        }
        resp_seen = k as u64;
    }
    Ok((reads, resp_seen))
}

fn make_stream(gen: &Gen, rng: &mut Rng, acc: &mut Acc) -> Stream {
    let mut bytes = Vec::new();
    let mut ends = Vec::new();
    let mut resps = Vec::new();
    for _ in 0..rng.range(1, 5) {
        let m = if rng.chance(1, 5) {
            let f = *rng.pick(&[Fault::WrongKind, Fault::TooFew, Fault::OutOfRange, Fault::Handler, Fault::UnknownMnem, Fault::BadSep]);
            gen.faulty_msg(f, 2, rng).unwrap_or_else(|| gen.valid_msg(rng))
        }
        else {
            gen.valid_msg(rng)
        };
        let mut st = Style::plain();
        st.seed = rng.next();
        bytes.extend_from_slice(&m.render(&st));
        ends.push(bytes.len());
        // responses owed: those of the units that execute.  After a parse-level
        // fault nothing more of the message runs; after an execute-level fault the
        // rest runs (both implementations are allowed by C06, the library does the latter).
        let mut r = Vec::new();
        for u in &m.units {
            for e in &u.expects {
                if let Expect::Resp(l) = e {
                    r.push(l.clone());
                }
            }
            if u.fault.map(|f| f.parse_level()).unwrap_or(false) {
                break;
            }
        }
        if r.is_empty() {
            acc.msgs_without_response += 1;
        }
        resps.push(r);
    }
    Stream { bytes, ends, resps }
}

fn shard(ctx: &Ctx, ifaces: &[&'static IfaceDesc], shard: usize, cases: u64) -> Acc {
    let mut acc = Acc::default();
    let mut rng = Rng::fork(ctx.seed, 0xC10_0000 + shard as u64);
    for case in 0..cases {
        let iface = *rng.pick(ifaces);
        let gen = Gen::new(
            iface,
            GenOpts { lit: LitOpts { payload_newline: false, wild_payload: false, max_payload: 5 }, max_units: 3, trailing_semicolon_16: 1, ..Default::default() },
        );
        let s = make_stream(&gen, &mut rng, &mut acc);
        // N must hold every message and the responses of every message
        let ns = (iface.ns)();
        let n = *ns.iter().max().unwrap();
        let longest = s.ends.iter().scan(0usize, |prev, e| { let l = *e - *prev; *prev = *e; Some(l) }).max().unwrap_or(0);
        if longest >= n {
            continue;
        }
        acc.distinct.insert(fnv(&s.bytes));
        par::case_begin(&s.bytes, [shard as u64, case, 0, 0]);
        for chunking in 0..3 {
            let chunks = match chunking {
                0 => vec![],
                1 => vec![1; s.bytes.len()],
                _ => random_chunks(&mut rng, s.bytes.len()),
            };
            for pend in [0u64, rng.next() | 1] {
                if pend != 0 && chunking != 2 {
                    continue;
                }
                let free = (iface.process)(&ProcSpec { stream: &s.bytes, n, chunks: &chunks, pend_seed: pend, fault_at: None });
                if free.panic.is_some() && !free.harness_abort() || free.stuck {
                    acc.res.skipped_crash += 1;
                    continue;
                }
                // oversized responses are C05's workload: skip streams whose answers do not fit N
                if free.log.iter().any(|e| matches!(e, Ev::Error { num: -223, .. } | Ev::Error { num: -310, .. })) {
                    continue;
                }
                let t = free.log.iter().filter(|e| matches!(e, Ev::Read { .. } | Ev::AWrite(_) | Ev::AFlush | Ev::AErr { .. })).count();
                let mut runs: Vec<(Option<usize>, RunOut)> = vec![(None, free)];
                for k in 0..t {
                    let out = (iface.process)(&ProcSpec { stream: &s.bytes, n, chunks: &chunks, pend_seed: pend, fault_at: Some(k) });
                    runs.push((Some(k), out));
                }
                for (fault_at, out) in runs {
                    if (out.panic.is_some() && !out.harness_abort()) || out.stuck {
                        acc.res.skipped_crash += 1;
                        continue;
                    }
                    acc.res.evaluations += 1;
                    acc.traces += 1;
                    if fault_at.is_some() {
                        acc.res.sample(|| J::obj(vec![("iface", J::s(iface.name)), ("stream", J::s(esc(&s.bytes))), ("n", n.into()), ("fault_at_call", fault_at.map(|k| J::Int(k as i64)).unwrap_or(J::Null)), ("trace", J::strs(out.log.iter().filter(|e| !matches!(e, Ev::Enter { .. } | Ev::Exit { .. })).map(|e| e.show())))]));
                    }
                    if pend != 0 {
                        acc.pend_runs += 1;
                    }
                    if let Some(_k) = fault_at {
                        // which kind of call was hit
                        if let Some(Ev::AErr { kind, token, .. }) = out.log.iter().find(|e| matches!(e, Ev::AErr { .. })) {
                            if *token >= TOKEN_FAULT_BASE {
                                *acc.fault_positions.entry(match kind { 0 => "read", 1 => "write", _ => "flush" }).or_default() += 1;
                            }
                        }
                    }
                    let verdict = if out.harness_abort() {
                        Err(("transport-call-after-error".to_string(), "the transport was called more than 40 times after it had returned an error".to_string()))
                    }
                    else {
                        check_trace(&s, &out, fault_at)
                    };
                    match verdict {
                        Ok((reads, resp)) => {
                            acc.reads_checked += reads;
                            acc.responses_seen += resp;
                        }
                        Err((clause, detail)) => {
                            acc.res.add_violation(Violation {
                                sig: format!("{}/{}", clause, if fault_at.is_some() { "injected-fault" } else { "fault-free" }),
                                summary: format!("process::<{}> on \"{}\" (fault at call {:?}): {}", n, esc(&s.bytes[..s.bytes.len().min(80)]), fault_at, detail),
                                witness: J::obj(vec![
                                    ("iface", J::s(iface.name)),
                                    ("decls", J::strs(iface.decls.iter().map(|x| x.cmd.to_string()))),
                                    ("stream", J::s(esc(&s.bytes))),
                                    ("stream_hex", J::s(hex(&s.bytes))),
                                    ("n", n.into()),
                                    ("chunks", J::Arr(chunks.iter().take(64).map(|c| J::Int(if *c == usize::MAX { -1 } else { *c as i64 })).collect())),
                                    ("pend_seed", pend.into()),
                                    ("fault_at_call", fault_at.map(|k| J::Int(k as i64)).unwrap_or(J::Null)),
                                    ("trace", J::strs(out.log.iter().filter(|e| !matches!(e, Ev::Enter { .. } | Ev::Exit { .. })).map(|e| e.show()))),
                                ]),
                            });
                        }
                    }
                }
            }
        }
        par::case_end();
    }
    acc
}

fn canary() -> Result<(), String> {
    let s = Stream { bytes: b"A?\nA\n".to_vec(), ends: vec![3, 5], resps: vec![vec![vec![Leaf::Int(7)]], vec![]] };
    let mk = |log: Vec<Ev>| RunOut { log, ..Default::default() };
    let good = mk(vec![
        Ev::Read { cap: 16, n: 3 },
        Ev::AWrite(b"7\n".to_vec()),
        Ev::AFlush,
        Ev::Read { cap: 16, n: 2 },
        Ev::AErr { token: TOKEN_EOS, call: 4, kind: 0 },
        Ev::ProcRet { ok: false, token: TOKEN_EOS },
    ]);
    let late = mk(vec![
        Ev::Read { cap: 16, n: 3 },
        Ev::Read { cap: 13, n: 2 },
        Ev::AWrite(b"7\n".to_vec()),
        Ev::AFlush,
        Ev::AErr { token: TOKEN_EOS, call: 4, kind: 0 },
        Ev::ProcRet { ok: false, token: TOKEN_EOS },
    ]);
    let noflush = mk(vec![
        Ev::Read { cap: 16, n: 3 },
        Ev::AWrite(b"7\n".to_vec()),
        Ev::Read { cap: 16, n: 2 },
        Ev::AErr { token: TOKEN_EOS, call: 3, kind: 0 },
        Ev::ProcRet { ok: false, token: TOKEN_EOS },
    ]);
    let okret = mk(vec![Ev::Read { cap: 16, n: 3 }, Ev::AWrite(b"7\n".to_vec()), Ev::AFlush, Ev::ProcRet { ok: true, token: 0 }]);
    if check_trace(&s, &good, None).is_err()
        || check_trace(&s, &late, None).is_ok()
        || check_trace(&s, &noflush, None).is_ok()
        || check_trace(&s, &okret, None).is_ok()
    {
        return Err("C10 canary: trace oracle misjudged fabricated traces".into());
    }
    Ok(())
}

pub fn run(ctx: &Ctx) -> PropResult {
    let mut res = PropResult::default();
    if let Err(e) = canary() {
        res.inconclusive = Some(e);
        return res;
    }
    let mut all: Vec<&'static IfaceDesc> = ctx.built(&["mini", "qdev2"]);
    all.extend(ctx.random_ifaces().into_iter().filter(|i| i.decls.iter().any(|d| d.cmd.ends_with('?'))));
    let shards = 64usize;
    let cases = ctx.scaled(if ctx.thorough { 4_000 } else { 300 });
    let accs = par::run_shards(shards, ctx.threads, |i| shard(ctx, &all, i, cases), |h| ctx.on_hang(h));
    let mut distinct = HashSet::new();
    let mut fp: BTreeMap<&'static str, u64> = BTreeMap::new();
    let (mut traces, mut reads, mut resp, mut pend, mut nor) = (0, 0, 0, 0, 0);
    for acc in accs {
        distinct.extend(acc.distinct);
        for (k, v) in acc.fault_positions {
            *fp.entry(k).or_default() += v;
        }
        traces += acc.traces;
        reads += acc.reads_checked;
        resp += acc.responses_seen;
        pend += acc.pend_runs;
        nor += acc.msgs_without_response;
        res.merge(acc.res);
    }
    res.distinct = distinct.len() as u64;
    res.rule = format!(
        "streams of 1..5 messages (queries and commands mixed, several queries per message, execute-level and parse-level faults) over {} interfaces, N large enough for every message and answer, 3 chunkings (one read, byte-wise, random with zero-length reads) + Pending injection; per (stream, chunking): one fault-free trace of length T, then T runs with a unique error token injected at transport call k = 0..T-1. distinct = distinct streams; evaluations = traces judged",
        all.len()
    );
    res.cov("traces_judged", traces);
    res.cov("fault_positions_by_call_kind", J::Obj(fp.iter().map(|(k, v)| (k.to_string(), J::Int(*v as i64))).collect()));
    res.cov("read_events_checked_for_due_responses", reads);
    res.cov("responses_decoded_and_matched", resp);
    res.cov("traces_with_pending_injection", pend);
    res.cov("messages_without_response", nor);
    res.samples.truncate(5);
    let described: Vec<J> = vec![J::s("stream \"A?;B:C?\\nA\\n\" byte-wise, error token 1007 injected at transport call 7 (a flush)")];
    res.samples.extend(described.into_iter().take(1));
    res.assumptions = vec![
        "messages contain no newline inside a payload; every answer fits N".into(),
        "the due responses come from the generator-side expectation, not from the write segmentation".into(),
    ];
    if fp.get("read").copied().unwrap_or(0) == 0 || fp.get("write").copied().unwrap_or(0) == 0 || fp.get("flush").copied().unwrap_or(0) == 0 || resp == 0 {
        res.inconclusive = Some("a transport call kind was never hit by an injected fault".into());
    }
    res
}
