//! C03 — handlers receive exactly the argument values written, or are not called.
//!
//! Literal model (DESIGN.md section 4): for (parameter type, literal) either a
//! value that must be delivered, a set of error numbers one of which must be
//! reported without a call, or both where the statement is silent.  Literals
//! go end to end through the parser, the generated conversion code and the
//! handler (parameter zoo + random signatures) and, for volume, through the
//! public `Value -> T` conversions directly.

use std::collections::{BTreeMap, HashSet};
use std::io::Write as _;

use super::{hex, Ctx};
use crate::drive::{IfaceDesc, RunSpec, WriterKind};
use crate::ev::{esc, Arg, Ty, ALL_TYS};
use crate::out::{PropResult, Violation, J};
use crate::par;
use crate::prng::{fnv, Rng};
use crate::sem::{check_streams, streams, Sem};
use crate::wl::{Gen, GenOpts, LitOpts, Style};
use microscpi::Value;

#[derive(Clone, Debug)]
pub enum K {
    /// decimal integer literal: value if it fits i128, sign written, is "-0..."
    DecInt(Option<i128>),
    /// decimal literal with '.', or exponent
    DecReal,
    /// #H / #Q / #B literal: value if it fits u128, digits, radix
    Radix(Option<u128>, String, u32),
    Chars(String),
    Str(Vec<u8>),
    /// a string literal that contains its enclosing quote written twice; payload = the text it
    /// denotes under IEEE 488.2 (one quote)
    StrDoubled(Vec<u8>),
    Blk(Vec<u8>),
}

#[derive(Clone, Debug)]
pub struct LitCase {
    pub text: Vec<u8>,
    pub k: K,
}

#[derive(Clone, Debug, PartialEq)]
pub enum Out {
    Deliver(Arg),
    Reject(Vec<i16>),
    Either(Vec<Arg>, Vec<i16>),
}

fn txt(c: &LitCase) -> &str {
    std::str::from_utf8(&c.text).unwrap_or("")
}

fn float_arg(ty: Ty, text: &str) -> Option<Arg> {
    match ty {
        Ty::F32 => text.parse::<f32>().ok().map(|v| Arg::F32(v.to_bits())),
        Ty::F64 => text.parse::<f64>().ok().map(|v| Arg::F64(v.to_bits())),
        _ => None,
    }
}

fn is_inf(a: &Arg) -> bool {
    match a {
        Arg::F32(b) => f32::from_bits(*b).is_infinite(),
        Arg::F64(b) => f64::from_bits(*b).is_infinite(),
        _ => false,
    }
}

/// What the property demands for literal `c` given to a parameter of type `ty`.
pub fn model(ty: Ty, c: &LitCase) -> Out {
    let is_int = ty.int_range().is_some();
    let is_float = matches!(ty, Ty::F32 | Ty::F64);
    match &c.k {
        K::DecInt(v) => {
            let t = txt(c);
            if is_int {
                let (lo, hi) = ty.int_range().unwrap();
                match v {
                    Some(v) if *v >= lo && *v <= hi => {
                        if *v == 0 && t.starts_with('-') && lo == 0 {
                            // "-0" to an unsigned type: the statement is silent
                            Out::Either(vec![ty.int_arg(0)], vec![-120])
                        }
                        else {
                            Out::Deliver(ty.int_arg(*v))
                        }
                    }
                    _ => Out::Reject(vec![-120]),
                }
            }
            else if is_float {
                match float_arg(ty, t) {
                    Some(a) if is_inf(&a) => Out::Either(vec![a], vec![-120]),
                    Some(a) => Out::Deliver(a),
                    None => Out::Reject(vec![-120]),
                }
            }
            else if ty == Ty::Bool {
                match (t, v) {
                    ("1", _) => Out::Deliver(Arg::Bool(true)),
                    ("0", _) => Out::Deliver(Arg::Bool(false)),
                    (_, Some(1)) => Out::Either(vec![Arg::Bool(true)], vec![-224]),
                    (_, Some(0)) => Out::Either(vec![Arg::Bool(false)], vec![-224]),
                    _ => Out::Reject(vec![-224]),
                }
            }
            else {
                Out::Reject(vec![-104])
            }
        }
        K::DecReal => {
            let t = txt(c);
            if is_float {
                match float_arg(ty, t) {
                    Some(a) if is_inf(&a) => Out::Either(vec![a], vec![-120]),
                    Some(a) => Out::Deliver(a),
                    None => Out::Reject(vec![-120]),
                }
            }
            else if is_int {
                // 1.0, 1e1, .5 to an integer parameter: the nearest-integer value or -120
                let (lo, hi) = ty.int_range().unwrap();
                let f: f64 = t.parse().unwrap_or(f64::NAN);
                let r = f.round();
                if r.is_finite() && r.abs() < 1e30 && (r as i128) >= lo && (r as i128) <= hi {
                    let mut vals = vec![ty.int_arg(r as i128)];
                    let tr = f.trunc();
                    if tr != r {
                        vals.push(ty.int_arg(tr as i128));
                    }
                    Out::Either(vals, vec![-120])
                }
                else {
                    Out::Reject(vec![-120])
                }
            }
            else if ty == Ty::Bool {
                let f: f64 = t.parse().unwrap_or(f64::NAN);
                if f == 1.0 {
                    Out::Either(vec![Arg::Bool(true)], vec![-224])
                }
                else if f == 0.0 {
                    Out::Either(vec![Arg::Bool(false)], vec![-224])
                }
                else {
                    Out::Reject(vec![-224])
                }
            }
            else {
                Out::Reject(vec![-104])
            }
        }
        K::Radix(v, _, _) => {
            if is_int {
                let (_, hi) = ty.int_range().unwrap();
                match v {
                    Some(v) if *v <= hi as u128 => Out::Deliver(ty.int_arg(*v as i128)),
                    _ => Out::Reject(vec![-120]),
                }
            }
            else if is_float {
                // a non-decimal literal for a real parameter: exact value or refusal
                match v {
                    Some(v) if *v < (1u128 << 24) => {
                        let a = if ty == Ty::F32 { Arg::F32((*v as f32).to_bits()) } else { Arg::F64((*v as f64).to_bits()) };
                        Out::Either(vec![a], vec![-104, -120])
                    }
                    _ => Out::Reject(vec![-104, -120]),
                }
            }
            else if ty == Ty::Bool {
                match v {
                    Some(1) => Out::Either(vec![Arg::Bool(true)], vec![-224, -104]),
                    Some(0) => Out::Either(vec![Arg::Bool(false)], vec![-224, -104]),
                    _ => Out::Reject(vec![-224, -104]),
                }
            }
            else {
                Out::Reject(vec![-104])
            }
        }
        K::Chars(s) => {
            if ty == Ty::Bool {
                match s.as_str() {
                    "ON" | "on" => Out::Deliver(Arg::Bool(true)),
                    "OFF" | "off" => Out::Deliver(Arg::Bool(false)),
                    x if x.eq_ignore_ascii_case("ON") || x.eq_ignore_ascii_case("TRUE") => Out::Either(vec![Arg::Bool(true)], vec![-224]),
                    x if x.eq_ignore_ascii_case("OFF") || x.eq_ignore_ascii_case("FALSE") => Out::Either(vec![Arg::Bool(false)], vec![-224]),
                    _ => Out::Reject(vec![-224]),
                }
            }
            else {
                Out::Reject(vec![-104])
            }
        }
        K::Str(b) => match ty {
            Ty::Str => Out::Deliver(Arg::Str(b.clone())),
            Ty::Bool => Out::Reject(vec![-104, -224]),
            _ => Out::Reject(vec![-104]),
        },
        // the statement does not say that doubled quotes are supported: the text they denote may
        // be delivered, or the literal refused with one error of any number (code 0 = any) -
        // but never the raw text with both quotes
        K::StrDoubled(b) => match ty {
            Ty::Str => Out::Either(vec![Arg::Str(b.clone())], vec![0]),
            _ => Out::Reject(vec![0]),
        },
        K::Blk(b) => match ty {
            Ty::Blk => Out::Deliver(Arg::Blk(b.clone())),
            Ty::Bool => Out::Reject(vec![-104, -224]),
            _ => Out::Reject(vec![-104]),
        },
    }
}

fn dec(text: String) -> LitCase {
    let digits = text.trim_start_matches(['+', '-']);
    let stripped = digits.trim_start_matches('0');
    let v = if stripped.len() > 38 {
        None
    }
    else {
        let m: i128 = if stripped.is_empty() { 0 } else { stripped.parse().unwrap() };
        Some(if text.starts_with('-') { -m } else { m })
    };
    LitCase { text: text.into_bytes(), k: K::DecInt(v) }
}

fn real(text: &str) -> LitCase {
    LitCase { text: text.as_bytes().to_vec(), k: K::DecReal }
}

fn radix(v: u128, r: u32, upper: bool, pad: usize) -> LitCase {
    let digits = match r {
        16 => {
            if upper {
                format!("{:X}", v)
            }
            else {
                format!("{:x}", v)
            }
        }
        8 => format!("{:o}", v),
        _ => format!("{:b}", v),
    };
    let digits = format!("{}{}", "0".repeat(pad), digits);
    let p = match (r, upper) {
        (16, true) => "#H",
        (16, false) => "#h",
        (8, true) => "#Q",
        (8, false) => "#q",
        (_, true) => "#B",
        _ => "#b",
    };
    LitCase { text: format!("{}{}", p, digits).into_bytes(), k: K::Radix(Some(v), digits, r) }
}

fn chars(s: &str) -> LitCase {
    LitCase { text: s.as_bytes().to_vec(), k: K::Chars(s.to_string()) }
}

fn strlit(payload: &str, q: u8) -> LitCase {
    let mut t = vec![q];
    t.extend_from_slice(payload.as_bytes());
    t.push(q);
    LitCase { text: t, k: K::Str(payload.as_bytes().to_vec()) }
}

fn blklit(payload: &[u8], width: usize) -> LitCase {
    let mut t = format!("#{}{:0w$}", width, payload.len(), w = width).into_bytes();
    t.extend_from_slice(payload);
    LitCase { text: t, k: K::Blk(payload.to_vec()) }
}

/// Integer boundary values that matter for any of the ten integer types.
fn int_points() -> Vec<i128> {
    let mut v: Vec<i128> = vec![0, 1, -1];
    for t in ALL_TYS {
        if let Some((lo, hi)) = t.int_range() {
            for d in -2..=2i128 {
                v.push(lo + d);
                v.push(hi + d);
            }
        }
    }
    for k in 0..=66u32 {
        let p = 1i128 << k;
        v.extend_from_slice(&[p - 1, p, p + 1, -(p - 1), -p, -(p + 1)]);
    }
    v.sort();
    v.dedup();
    v
}

fn float_hard_cases(rng: &mut Rng, n: usize) -> Vec<String> {
    let mut v: Vec<String> = vec![
        "0", "-0", "0.0", "-0.0", "1", "1.", ".5", "-.5e+3", "1E3", "1e-3", "+1.5", "00012.500", "3.4028235e38", "3.4028236e38", "3.40282357e38",
        "1.17549435e-38", "1.4e-45", "7e-46", "7.1e-46", "1e-46", "1.7976931348623157e308", "1.7976931348623159e308", "4.9e-324", "2.4703282292062327e-324",
        "2.4703282292062328e-324", "1e400", "-1e400", "1e-400", "16777216", "16777217", "16777218", "16777219", "9007199254740992", "9007199254740993", "0.1", "0.2", "0.3",
        "123456789012345678901234567890", "0.000000000000000000000000000000000000000000001", "1e39", "1e38", "1E+38", "2.5e-1", "9.999999e-1",
        "1.00000017881393421514957253748434595763683319091796875", "1.00000017881393432617187500000000000000000000000000000",
        "1.00000017881393443719417746251565404236316680908203125",
    ]
    .into_iter()
    .map(String::from)
    .collect();
    for s in ["1E000002", "-2.5e+0000001", "100.0e0000000", "5E-000001", "1E+00000000000000000000038", "1e-0", "1E+0", "0001E0001"] {
        v.push(s.to_string());
    }
    for e in ["127", "128", "-128", "-129", "255", "256", "32767", "-32768", "32768", "-32769", "65535", "65536", "2147483647", "-2147483648", "2147483648", "9223372036854775807", "-9223372036854775808"] {
        v.push(format!("1E{}", e));
        v.push(format!("-2.5e{}", e));
        v.push(format!("0E{}", e));
    }
    // midpoints between neighbouring f32 values, +- one unit in a late digit: this is
    // what exposes double rounding through f64
    for _ in 0..n {
        let bits = (rng.next() as u32) & 0x7f7f_ffff;
        let a = f32::from_bits(bits) as f64;
        let b = f32::from_bits(bits + 1) as f64;
        if !a.is_finite() || !b.is_finite() || a == 0.0 {
            continue;
        }
        let mid = (a + b) / 2.0; // exact in f64
        let s = format!("{:e}", mid);
        // mid printed exactly needs many digits: use {:.60e}
        let exact = format!("{:.70e}", mid);
        let (m, e) = exact.split_once('e').unwrap();
        let m = m.trim_end_matches('0');
        v.push(format!("{}e{}", m, e));
        // nudge the last digit up / append digits
        v.push(format!("{}1e{}", m, e));
        let mut down = m.to_string();
        if let Some(last) = down.pop() {
            if last > '0' && last <= '9' {
                down.push((last as u8 - 1) as char);
                down.push_str("99999999");
                v.push(format!("{}e{}", down, e));
            }
        }
        let _ = s;
        // same around f64 midpoints
        let db = rng.next() & 0x7fef_ffff_ffff_ffff;
        let x = f64::from_bits(db);
        if x.is_finite() && x != 0.0 {
            v.push(format!("{:e}", x));
            v.push(format!("{:.25e}", x));
        }
    }
    // random decimal spellings
    for _ in 0..n {
        let digits = rng.range(1, 30);
        let mut s = String::new();
        if rng.chance(1, 3) {
            s.push(if rng.chance(1, 2) { '-' } else { '+' });
        }
        let dot = rng.below(digits + 1);
        for i in 0..digits {
            if i == dot && rng.chance(2, 3) {
                s.push('.');
            }
            s.push((b'0' + rng.below(10) as u8) as char);
        }
        if rng.chance(1, 2) {
            s.push(if rng.chance(1, 2) { 'e' } else { 'E' });
            if rng.chance(1, 2) {
                s.push(if rng.chance(1, 2) { '-' } else { '+' });
            }
            let lim = if rng.chance(1, 4) { 400 } else { 45 };
            s.push_str(&format!("{}", rng.below(lim)));
        }
        if s.ends_with('.') && s.len() == 1 {
            continue;
        }
        v.push(s);
    }
    v
}

fn is_real_spelling(s: &str) -> bool {
    s.contains('.') || s.contains('e') || s.contains('E')
}

#[derive(Default)]
struct Acc {
    by_setting: BTreeMap<&'static str, u64>,
    res: PropResult,
    distinct: HashSet<u64>,
    delivered: u64,
    rejected: u64,
    either: u64,
    by_type: BTreeMap<&'static str, u64>,
    by_kind: BTreeMap<&'static str, u64>,
    mismatch_cells: HashSet<(u8, &'static str)>,
    arities: HashSet<(usize, usize)>,
    direct: u64,
    floatlog: Vec<String>,
    errs_seen: BTreeMap<i16, u64>,
}

fn kind_name(k: &K) -> &'static str {
    match k {
        K::DecInt(_) => "decimal-integer",
        K::DecReal => "decimal-real",
        K::Radix(_, _, 16) => "hexadecimal",
        K::Radix(_, _, 8) => "octal",
        K::Radix(..) => "binary",
        K::Chars(_) => "character",
        K::Str(_) | K::StrDoubled(_) => "string",
        K::Blk(_) => "block",
    }
}

fn kind_idx(k: &K) -> u8 {
    match k {
        K::DecInt(_) => 0,
        K::DecReal => 1,
        K::Radix(_, _, 16) => 2,
        K::Radix(_, _, 8) => 3,
        K::Radix(..) => 4,
        K::Chars(_) => 5,
        K::Str(_) | K::StrDoubled(_) => 6,
        K::Blk(_) => 7,
    }
}

/// Judge one end-to-end execution of `header lit[,lit...]` against the model outcomes.
fn judge_e2e(acc: &mut Acc, iface: &IfaceDesc, h: u16, tys: &[Ty], lits: &[LitCase], input: &[u8]) {
    acc.distinct.insert(fnv(input));
    // the same unit in three settings: alone through `run`; behind another (valid) unit of the
    // same message; as a byte stream through `process` in random chunks
    let pair = iface.decls.iter().position(|d| d.cmd.eq_ignore_ascii_case("MIX:PAIR"));
    let setting = match (fnv(input) >> 7) % 4 {
        1 if pair.is_some() => 1,
        2 if input.len() <= 900 => 2,
        _ => 0,
    };
    let mut framed: Vec<u8> = Vec::new();
    if setting == 1 {
        framed.extend_from_slice(b"MIX:PAIR 11,22;:");
    }
    framed.extend_from_slice(input);
    let input: &[u8] = &framed;
    par::case_begin(input, [setting as u64, 0, 0, 0]);
    let out = if setting == 2 {
        let mut r = Rng::new(fnv(input) | 1);
        let chunks = super::c05::random_chunks(&mut r, input.len());
        (iface.process)(&crate::drive::ProcSpec { stream: input, n: 1024, chunks: &chunks, pend_seed: 0, fault_at: None })
    }
    else {
        (iface.run)(&RunSpec { inputs: &[input], writer: WriterKind::Rec(None), pend_seed: 0 })
    };
    par::case_end();
    if out.crashed() {
        acc.res.skipped_crash += 1;
        return;
    }
    acc.res.evaluations += 1;
    *acc.by_setting.entry(["run", "run, behind another unit", "process, random chunks"][setting]).or_default() += 1;
    let mut got = streams(&out.log);
    if setting == 1 {
        // the unit in front must have run first, with its own two arguments
        let want = Sem::Call { h: pair.unwrap() as u16, args: vec![Arg::U16(11), Arg::U16(22)], ok: true };
        if got.ce.first() == Some(&want) {
            got.ce.remove(0);
        }
        else {
            acc.res.add_violation(Violation {
                sig: "unit-in-front-lost-or-altered".into(),
                summary: format!("\"{}\": the first unit (MIX:PAIR 11,22) was not executed first and unchanged: {}", esc(&input[..input.len().min(160)]), got.show().join(" ")),
                witness: J::obj(vec![("iface", J::s(iface.name)), ("input", J::s(esc(input))), ("input_hex", J::s(hex(input))), ("observed", J::strs(got.show()))]),
            });
            return;
        }
    }
    acc.res.sample(|| J::obj(vec![("input", J::s(esc(&input[..input.len().min(200)]))), ("declared", J::strs(tys.iter().map(|t| t.name().to_string()))), ("observed", J::strs(got.show()))]));
    let calls: Vec<&Sem> = got.ce.iter().filter(|s| matches!(s, Sem::Call { .. })).collect();
    let errs: Vec<i16> = got.ce.iter().filter_map(|s| if let Sem::Err { num, .. } = s { Some(*num) } else { None }).collect();
    for e in &errs {
        *acc.errs_seen.entry(*e).or_default() += 1;
    }
    let mut verdict: Result<(), (String, String)> = Ok(());
    if tys.len() != lits.len() {
        // arity mismatch: exactly one error (any number), no call
        acc.arities.insert((tys.len(), lits.len()));
        if !calls.is_empty() {
            verdict = Err(("called-with-wrong-number-of-parameters".into(), format!("{} declared, {} written, handler was invoked", tys.len(), lits.len())));
        }
        else if errs.len() != 1 {
            verdict = Err(("arity-fault-not-reported-once".into(), format!("{} errors reported", errs.len())));
        }
    }
    else {
        let outs: Vec<Out> = tys.iter().zip(lits).map(|(t, l)| model(*t, l)).collect();
        for (t, l) in tys.iter().zip(lits) {
            *acc.by_type.entry(t.name()).or_default() += 1;
            *acc.by_kind.entry(kind_name(&l.k)).or_default() += 1;
            acc.mismatch_cells.insert((kind_idx(&l.k), t.name()));
        }
        let must_reject = outs.iter().any(|o| matches!(o, Out::Reject(_)));
        let may_reject = outs.iter().any(|o| !matches!(o, Out::Deliver(_)));
        let mut codes: Vec<i16> = Vec::new();
        for o in &outs {
            match o {
                Out::Reject(c) | Out::Either(_, c) => codes.extend(c),
                _ => {}
            }
        }
        let called = calls.len() == 1 && errs.is_empty();
        let rejected = calls.is_empty() && errs.len() == 1;
        if called && !must_reject {
            // every delivered argument must be an allowed value
            if let Sem::Call { h: gh, args, ok: _ } = calls[0] {
                if *gh != h || args.len() != tys.len() {
                    verdict = Err(("wrong-handler-or-argument-count".into(), format!("handler h{} with {} arguments", gh, args.len())));
                }
                else {
                    for (k, (a, o)) in args.iter().zip(&outs).enumerate() {
                        let ok = match o {
                            Out::Deliver(w) => a == w,
                            Out::Either(ws, _) => ws.contains(a),
                            Out::Reject(_) => false,
                        };
                        if !ok {
                            let clause = match &lits[k].k {
                                K::Str(_) | K::Blk(_) => "payload-altered",
                                K::DecReal => "real-not-correctly-rounded-or-wrong",
                                K::DecInt(_) if matches!(tys[k], Ty::F32 | Ty::F64) => "real-not-correctly-rounded-or-wrong",
                                _ => "wrong-value-delivered",
                            };
                            verdict = Err((format!("{}/{}", clause, tys[k].name()), format!("parameter {} ({}): literal \"{}\" delivered as {}, allowed {:?}", k, tys[k].name(), esc(&lits[k].text), a.show(), o)));
                            break;
                        }
                    }
                    acc.delivered += 1;
                }
            }
        }
        else if rejected && may_reject {
            if !codes.contains(&errs[0]) && !codes.contains(&0) {
                verdict = Err((format!("wrong-error-number/{}", errs[0]), format!("reported {} but the unfit literal calls for one of {:?}", errs[0], codes)));
            }
            if must_reject {
                acc.rejected += 1;
            }
            else {
                acc.either += 1;
            }
        }
        else if called && must_reject {
            let k = outs.iter().position(|o| matches!(o, Out::Reject(_))).unwrap();
            let delivered = if let Sem::Call { args, .. } = calls[0] { args.get(k).map(|a| a.show()).unwrap_or_default() } else { String::new() };
            verdict = Err((
                format!("unfit-literal-delivered/{}/{}", tys[k].name(), kind_name(&lits[k].k)),
                format!("parameter {} ({}): literal \"{}\" must be refused but the handler was invoked with {}", k, tys[k].name(), esc(&lits[k].text), delivered),
            ));
        }
        else if rejected {
            verdict = Err((format!("fitting-literals-refused/{}", errs[0]), format!("all literals fit their parameters but error {} was reported", errs[0])));
        }
        else {
            verdict = Err(("not-exactly-one-call-or-one-error".into(), format!("{} calls, errors {:?}", calls.len(), errs)));
        }
    }
    if let Err((sig, detail)) = verdict {
        acc.res.add_violation(Violation {
            sig,
            summary: format!("\"{}\": {}", esc(&input[..input.len().min(160)]), detail),
            witness: J::obj(vec![
                ("iface", J::s(iface.name)),
                ("input", J::s(esc(input))),
                ("input_hex", J::s(hex(input))),
                ("declared", J::strs(tys.iter().map(|t| t.name().to_string()))),
                ("observed", J::strs(got.show())),
            ]),
        });
    }
}

fn render(header: &str, lits: &[LitCase]) -> Vec<u8> {
    let mut v = header.as_bytes().to_vec();
    for (i, l) in lits.iter().enumerate() {
        v.push(if i == 0 { b' ' } else { b',' });
        v.extend_from_slice(&l.text);
    }
    v.push(b'\n');
    v
}

/// Literal pool: everything interesting for every type.
pub fn pool(rng: &mut Rng, floats: usize) -> Vec<LitCase> {
    let mut v: Vec<LitCase> = Vec::new();
    for p in int_points() {
        v.push(dec(format!("{}", p)));
        if p >= 0 {
            v.push(dec(format!("+{}", p)));
            v.push(dec(format!("000{}", p)));
            for (r, up) in [(16, true), (16, false), (8, true), (8, false), (2, true), (2, false)] {
                v.push(radix(p as u128, r, up, 0));
            }
            v.push(radix(p as u128, 16, true, 3));
        }
    }
    v.push(dec("-0".into()));
    v.push(dec("-000".into()));
    for d in [20usize, 25, 39, 40] {
        v.push(dec("9".repeat(d)));
        v.push(dec(format!("-{}", "9".repeat(d))));
        v.push(dec(format!("{}7", "0".repeat(d))));
    }
    v.push(LitCase { text: format!("#H{}", "F".repeat(40)).into_bytes(), k: K::Radix(None, "F".repeat(40), 16) });
    for s in float_hard_cases(rng, floats) {
        if is_real_spelling(&s) {
            v.push(real(&s));
        }
        else {
            v.push(dec(s));
        }
    }
    for s in ["ON", "OFF", "on", "off", "On", "oFF", "TRUE", "false", "MAX", "A", "ONN", "O", "x1_"] {
        v.push(chars(s));
    }
    for (p, q) in [("", b'"'), ("abc", b'\''), ("a;b,c:d#e", b'"'), ("it's", b'"'), ("say \"hi\"", b'\''), ("\u{e9}\u{3a9}\u{1F600}", b'"'), (" lead and trail ", b'\''), ("1", b'"'), ("ON", b'\'')] {
        v.push(strlit(p, q));
    }
    for (text, denotes) in [
        ("\x27it\x27\x27s\x27", "it\x27s"),
        ("\x22say \x22\x22hi\x22\x22\x22", "say \x22hi\x22"),
        ("\x27\x27\x27\x27", "\x27"),
        ("\x22\x22\x22\x22", "\x22"),
        ("\x27a\x27\x27\x27\x27b\x27", "a\x27\x27b"),
    ] {
        v.push(LitCase { text: text.as_bytes().to_vec(), k: K::StrDoubled(denotes.as_bytes().to_vec()) });
    }
    v.push(strlit(&"long string ".repeat(30), b'"'));
    for w in 1..=9usize {
        let payload: Vec<u8> = (0..(w * 3)).map(|i| (i * 37 + w) as u8).collect();
        v.push(blklit(&payload, w));
    }
    v.push(blklit(b"", 1));
    v.push(blklit(&(0u8..=255).collect::<Vec<u8>>(), 3));
    v.push(blklit(&(0..700).map(|i| (i % 251) as u8).collect::<Vec<u8>>(), 4));
    v.push(blklit(&vec![b'z'; 259], 9));
    v
}

fn pzoo_shard(ctx: &Ctx, pz: &'static IfaceDesc, shard: usize, shards: usize) -> Acc {
    let mut acc = Acc::default();
    let mut rng = Rng::fork(ctx.seed, 0xC03_0000 + shard as u64);
    let pool = pool(&mut rng, if ctx.thorough { 4000 } else { 250 });
    let idx_of = |cmd: &str| pz.decls.iter().position(|d| d.cmd.eq_ignore_ascii_case(cmd)).unwrap();
    // (a) every literal of the pool to every single-parameter command
    for (ti, t) in ALL_TYS.iter().enumerate() {
        let cmd = format!("P:{}", t.name().to_ascii_uppercase());
        let h = idx_of(&cmd) as u16;
        for (li, l) in pool.iter().enumerate() {
            if (li + ti) % shards != shard {
                continue;
            }
            let input = render(&cmd, std::slice::from_ref(l));
            judge_e2e(&mut acc, pz, h, &[*t], std::slice::from_ref(l), &input);
        }
    }
    // (b) mixed signatures: all valid, one unfit literal at each position, two unfit, arities 0..12
    let mixes = ["MIX:NONE", "MIX:A", "MIX:B", "MIX:C?", "MIX:TEN", "MIX:TEN2", "MIX:PAIR", "MIX:BOOLS"];
    let fits: Vec<Vec<&LitCase>> = ALL_TYS.iter().map(|t| pool.iter().filter(|l| matches!(model(*t, l), Out::Deliver(_))).collect()).collect();
    let unfit: Vec<Vec<&LitCase>> = ALL_TYS.iter().map(|t| pool.iter().filter(|l| matches!(model(*t, l), Out::Reject(_))).collect()).collect();
    let tyi = |t: Ty| ALL_TYS.iter().position(|x| *x == t).unwrap();
    let rounds = ctx.scaled(if ctx.thorough { 6000 } else { 400 });
    for _ in 0..rounds {
        let cmd = *rng.pick(&mixes);
        let di = idx_of(cmd);
        let tys = pz.decls[di].params;
        let mut lits: Vec<LitCase> = tys.iter().map(|t| (*rng.pick(&fits[tyi(*t)])).clone()).collect();
        match rng.below(6) {
            0 | 1 => {}
            2 | 3 => {
                if !tys.is_empty() {
                    let k = rng.below(tys.len());
                    lits[k] = (*rng.pick(&unfit[tyi(tys[k])])).clone();
                }
            }
            4 => {
                if tys.len() >= 2 {
                    let k1 = rng.below(tys.len());
                    let k2 = rng.below(tys.len());
                    lits[k1] = (*rng.pick(&unfit[tyi(tys[k1])])).clone();
                    lits[k2] = (*rng.pick(&unfit[tyi(tys[k2])])).clone();
                }
            }
            _ => {
                // arity fault
                let want = rng.below(13);
                while lits.len() > want {
                    lits.pop();
                }
                while lits.len() < want {
                    lits.push(dec("1".into()));
                }
            }
        }
        let syntax_level = lits.len() > 10 || lits.iter().any(|l| matches!(l.k, K::StrDoubled(_)));
        if syntax_level && lits.iter().any(|l| l.text.contains(&b'\n')) {
            // more than MAX_ARGS parameters, or a doubled quote the parser may refuse, is a
            // syntax-level fault; combined with a newline inside a payload (where the discard of
            // the faulty message legitimately stops) it is outside every property's premise
            continue;
        }
        let input = render(cmd, &lits);
        judge_e2e(&mut acc, pz, di as u16, tys, &lits, &input);
    }
    // argument order: distinct values in every position
    for _ in 0..rounds / 4 {
        let di = idx_of("MIX:TEN");
        let tys = pz.decls[di].params;
        let lits: Vec<LitCase> = tys.iter().enumerate().map(|(k, t)| if *t == Ty::Bool { chars("ON") } else if matches!(t, Ty::F32) { real(&format!("{}.5", k)) } else { dec(format!("{}", k + 1)) }).collect();
        let input = render("MIX:TEN", &lits);
        judge_e2e(&mut acc, pz, di as u16, tys, &lits, &input);
    }
    acc
}

macro_rules! direct_int {
    ($acc:expr, $t:ty, $ty:expr, $val:expr, $c:expr) => {{
        let r: Result<$t, microscpi::Error> = $val.try_into();
        let got = match r {
            Ok(v) => Ok($ty.int_arg(v as i128)),
            Err(e) => Err(e.number()),
        };
        judge_direct($acc, $ty, $c, got);
    }};
}

fn judge_direct(acc: &mut Acc, ty: Ty, c: &LitCase, got: Result<Arg, i16>) {
    acc.direct += 1;
    acc.res.evaluations += 1;
    let want = model(ty, c);
    let ok = match (&want, &got) {
        (Out::Deliver(a), Ok(g)) => a == g,
        (Out::Either(vs, _), Ok(g)) => vs.contains(g),
        (Out::Reject(cs), Err(n)) | (Out::Either(_, cs), Err(n)) => cs.contains(n) || cs.contains(&0),
        _ => false,
    };
    if !ok {
        let clause = match (&want, &got) {
            (Out::Reject(_), Ok(_)) => "unfit-literal-delivered",
            (_, Ok(_)) => "wrong-value-delivered",
            (Out::Deliver(_), Err(_)) => "fitting-literals-refused",
            _ => "wrong-error-number",
        };
        acc.res.add_violation(Violation {
            sig: format!("direct-conversion/{}/{}/{}", clause, ty.name(), kind_name(&c.k)),
            summary: format!("Value {} \"{}\" -> {}: got {:?}, the model allows {:?}", kind_name(&c.k), esc(&c.text), ty.name(), got.as_ref().map(|a| a.show()), want),
            witness: J::obj(vec![("type", J::s(ty.name())), ("literal", J::s(esc(&c.text))), ("kind", J::s(kind_name(&c.k)))]),
        });
    }
}

fn direct_shard(ctx: &Ctx, shard: usize, shards: usize) -> Acc {
    let mut acc = Acc::default();
    let mut rng = Rng::fork(ctx.seed, 0xC03_7000 + shard as u64);
    let pool = pool(&mut rng, if ctx.thorough { 20_000 } else { 1500 });
    for (li, c) in pool.iter().enumerate() {
        if li % shards != shard {
            continue;
        }
        // the Value the parser would produce for this literal
        let text = std::str::from_utf8(&c.text).unwrap_or("");
        let digits;
        let val: Value = match &c.k {
            K::DecInt(_) | K::DecReal => Value::Decimal(text),
            K::Radix(_, d, 16) => {
                digits = d.clone();
                Value::Hexadecimal(&digits)
            }
            K::Radix(_, d, 8) => {
                digits = d.clone();
                Value::Octal(&digits)
            }
            K::Radix(_, d, _) => {
                digits = d.clone();
                Value::Binary(&digits)
            }
            K::Chars(s) => Value::Characters(s),
            K::Str(b) => Value::String(std::str::from_utf8(b).unwrap_or("")),
            K::StrDoubled(_) => continue, // only meaningful through the parser
            K::Blk(b) => Value::Arbitrary(b),
        };
        direct_int!(&mut acc, u8, Ty::U8, val, c);
        direct_int!(&mut acc, i8, Ty::I8, val, c);
        direct_int!(&mut acc, u16, Ty::U16, val, c);
        direct_int!(&mut acc, i16, Ty::I16, val, c);
        direct_int!(&mut acc, u32, Ty::U32, val, c);
        direct_int!(&mut acc, i32, Ty::I32, val, c);
        direct_int!(&mut acc, u64, Ty::U64, val, c);
        direct_int!(&mut acc, i64, Ty::I64, val, c);
        direct_int!(&mut acc, usize, Ty::Usize, val, c);
        direct_int!(&mut acc, isize, Ty::Isize, val, c);
        let r: Result<f32, microscpi::Error> = val.try_into();
        if let (Ok(v), K::DecInt(_) | K::DecReal) = (&r, &c.k) {
            if v.is_finite() {
                acc.floatlog.push(format!("f32 {:08x} {}", v.to_bits(), text));
            }
        }
        judge_direct(&mut acc, Ty::F32, c, r.map(|v| Arg::F32(v.to_bits())).map_err(|e| e.number()));
        let r: Result<f64, microscpi::Error> = val.try_into();
        if let (Ok(v), K::DecInt(_) | K::DecReal) = (&r, &c.k) {
            if v.is_finite() {
                acc.floatlog.push(format!("f64 {:016x} {}", v.to_bits(), text));
            }
        }
        judge_direct(&mut acc, Ty::F64, c, r.map(|v| Arg::F64(v.to_bits())).map_err(|e| e.number()));
        let r: Result<bool, microscpi::Error> = val.try_into();
        judge_direct(&mut acc, Ty::Bool, c, r.map(Arg::Bool).map_err(|e| e.number()));
        let r: Result<&str, microscpi::Error> = val.try_into();
        judge_direct(&mut acc, Ty::Str, c, r.map(|s| Arg::Str(s.as_bytes().to_vec())).map_err(|e| e.number()));
        let r: Result<&[u8], microscpi::Error> = (&val).try_into();
        judge_direct(&mut acc, Ty::Blk, c, r.map(|s| Arg::Blk(s.to_vec())).map_err(|e| e.number()));
    }
    acc
}

/// Random signatures inside the generated interfaces (the "programs" quantifier).
fn random_sig_shard(ctx: &Ctx, ifaces: &[&'static IfaceDesc], shard: usize, cases: u64) -> Acc {
    let mut acc = Acc::default();
    let mut rng = Rng::fork(ctx.seed, 0xC03_9000 + shard as u64);
    for _ in 0..cases {
        let iface = *rng.pick(ifaces);
        let gen = Gen::new(iface, GenOpts { lit: LitOpts { payload_newline: false, wild_payload: true, max_payload: 10 }, max_units: 1, trailing_semicolon_16: 0, ..Default::default() });
        let ast = gen.valid_msg(&mut rng);
        let input = ast.render(&Style::plain());
        acc.distinct.insert(fnv(&input) ^ fnv(iface.name.as_bytes()));
        let out = (iface.run)(&RunSpec { inputs: &[&input], writer: WriterKind::Rec(None), pend_seed: 0 });
        if out.crashed() {
            acc.res.skipped_crash += 1;
            continue;
        }
        acc.res.evaluations += 1;
        let got = streams(&out.log);
        for u in &ast.units {
            if let Some(crate::spec::Target::User(di)) = u.target {
                for t in iface.decls[di as usize].params {
                    *acc.by_type.entry(t.name()).or_default() += 1;
                }
            }
        }
        if let Err(e) = check_streams(&ast.expects(), &got) {
            acc.res.add_violation(Violation {
                sig: "random-signature/arguments-differ".into(),
                summary: format!("interface {}: \"{}\": {}", iface.name, esc(&input[..input.len().min(160)]), e),
                witness: J::obj(vec![
                    ("iface", J::s(iface.name)),
                    ("decls", J::strs(iface.decls.iter().map(|x| x.cmd.to_string()))),
                    ("input", J::s(esc(&input))),
                    ("input_hex", J::s(hex(&input))),
                    ("observed", J::strs(got.show())),
                ]),
            });
        }
        else {
            acc.delivered += 1;
        }
    }
    acc
}

fn canary() -> Result<(), String> {
    let m = |t: Ty, c: LitCase| model(t, &c);
    let checks = [
        m(Ty::U8, dec("255".into())) == Out::Deliver(Arg::U8(255)),
        m(Ty::U8, dec("256".into())) == Out::Reject(vec![-120]),
        m(Ty::I8, dec("-129".into())) == Out::Reject(vec![-120]),
        m(Ty::I8, dec("-128".into())) == Out::Deliver(Arg::I8(-128)),
        m(Ty::U16, radix(0x10000, 16, true, 0)) == Out::Reject(vec![-120]),
        m(Ty::U16, radix(0xffff, 2, false, 0)) == Out::Deliver(Arg::U16(0xffff)),
        m(Ty::Bool, chars("MAYBE")) == Out::Reject(vec![-224]),
        m(Ty::Str, dec("1".into())) == Out::Reject(vec![-104]),
        m(Ty::U64, dec("18446744073709551616".into())) == Out::Reject(vec![-120]),
        m(Ty::I64, dec("-9223372036854775808".into())) == Out::Deliver(Arg::I64(i64::MIN)),
    ];
    if checks.iter().any(|c| !*c) {
        return Err(format!("C03 canary: literal model wrong: {:?}", checks));
    }
    Ok(())
}

pub fn run(ctx: &Ctx) -> PropResult {
    let mut res = PropResult::default();
    if let Err(e) = canary() {
        res.inconclusive = Some(e);
        return res;
    }
    let pz = ctx.iface("pzoo");
    let rnd: Vec<&'static IfaceDesc> = ctx.random_ifaces().into_iter().filter(|i| i.decls.iter().any(|d| !d.params.is_empty())).collect();
    let (s1, s2, s3) = (32usize, 32usize, 32usize);
    let cases = ctx.scaled(if ctx.thorough { 100_000 } else { 6_000 });
    let accs = par::run_shards(
        s1 + s2 + s3,
        ctx.threads,
        |i| {
            if i < s1 {
                pzoo_shard(ctx, pz, i, s1)
            }
            else if i < s1 + s2 {
                direct_shard(ctx, i - s1, s2)
            }
            else {
                random_sig_shard(ctx, &rnd, i - s1 - s2, cases)
            }
        },
        |h| ctx.on_hang(h),
    );
    let mut distinct = HashSet::new();
    let mut by_type: BTreeMap<&'static str, u64> = BTreeMap::new();
    let mut by_setting: BTreeMap<&'static str, u64> = BTreeMap::new();
    let mut by_kind: BTreeMap<&'static str, u64> = BTreeMap::new();
    let mut cells = HashSet::new();
    let mut arities = HashSet::new();
    let mut errs: BTreeMap<i16, u64> = BTreeMap::new();
    let (mut del, mut rej, mut eit, mut dir) = (0, 0, 0, 0);
    let mut floatlog: Vec<String> = Vec::new();
    for acc in accs {
        distinct.extend(acc.distinct);
        for (k, v) in acc.by_setting {
            *by_setting.entry(k).or_default() += v;
        }
        for (k, v) in acc.by_type {
            *by_type.entry(k).or_default() += v;
        }
        for (k, v) in acc.by_kind {
            *by_kind.entry(k).or_default() += v;
        }
        for (k, v) in acc.errs_seen {
            *errs.entry(k).or_default() += v;
        }
        cells.extend(acc.mismatch_cells);
        arities.extend(acc.arities);
        del += acc.delivered;
        rej += acc.rejected;
        eit += acc.either;
        dir += acc.direct;
        floatlog.extend(acc.floatlog);
        res.merge(acc.res);
    }
    let flog_path = format!("{}.floatlog", ctx.out_path);
    if let Ok(mut f) = std::fs::File::create(&flog_path) {
        for l in &floatlog {
            let _ = writeln!(f, "{}", l);
        }
    }
    res.distinct = distinct.len() as u64 + dir;
    res.rule = format!(
        "literal pool (every integer type's MIN-2..MIN+2, MAX-2..MAX+2, 2^k and 2^k+-1 for k<=66, in decimal with +/leading zeros and in #H/#h/#Q/#q/#B/#b; 20-40 digit strings; decimal-real spellings, f32/f64 midpoints +- one late digit, subnormal and overflow thresholds, random spellings; boolean and other character data; strings of both quote kinds; blocks with header widths 1..9 and all byte values) x each of the 15 parameter types end to end through the parameter zoo; mixed signatures with 0..10 parameters, one or two unfit literals at random positions, arities 0..12; the same pool through the public Value->T conversions; random signatures of {} generated interfaces. distinct = distinct inputs + direct conversions",
        rnd.len()
    );
    res.cov("handler_invoked_with_model_values", del);
    res.cov("rejected_as_the_model_demands", rej);
    res.cov("either_way_allowed_and_rejected", eit);
    res.cov("direct_conversions", dir);
    res.cov("kind_x_type_cells_exercised", cells.len());
    res.cov("kind_x_type_cells_total", 8usize * 15);
    res.cov("arity_pairs_declared_written", arities.len());
    res.cov("end_to_end_cases_by_setting", J::Obj(by_setting.into_iter().map(|(k, v)| (k.to_string(), J::Int(v as i64))).collect()));
    res.cov("parameters_by_type", J::Obj(by_type.into_iter().map(|(k, v)| (k.to_string(), J::Int(v as i64))).collect()));
    res.cov("literals_by_kind", J::Obj(by_kind.into_iter().map(|(k, v)| (k.to_string(), J::Int(v as i64))).collect()));
    res.cov("error_numbers_observed", J::Obj(errs.into_iter().map(|(k, v)| (k.to_string(), J::Int(v as i64))).collect()));
    res.cov("float_conversions_logged_for_exact_check", floatlog.len());
    res.samples.truncate(5);
    let described: Vec<J> = vec![J::s("P:I8 -129  -> one -120, no call"), J::s("P:U16 #B1111111111111111 -> U16(65535)"), J::s("P:F32 1.00000017881393432617187500000000000000000000000000000 (an f32 midpoint)")];
    res.samples.extend(described.into_iter().take(1));
    res.assumptions = vec![
        "where the statement is silent both outcomes are accepted: -0 to unsigned, reals to integer parameters, On/TRUE/01 to bool, overflowing reals (inf or -120), #H literals to real parameters, strings/blocks to bool (-104 or -224)".into(),
        "in-process the delivered float is compared with core's str::parse of the literal; exactness of a sample is re-checked with rationals offline (pyoracle/round.py)".into(),
    ];
    if cells.len() < 8 * 15 || del == 0 || rej == 0 {
        res.inconclusive = Some(format!("coverage floor not reached: {} of 120 kind x type cells", cells.len()));
    }
    res
}
