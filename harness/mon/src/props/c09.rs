//! C09 — the error queue is a bounded FIFO with IEEE 488.2 overflow semantics.
//!
//! Every operation sequence up to a depth over {4 fault kinds, handler-raised
//! custom error, NEXT?, COUNt?, valid command} on devices with queue
//! capacities 1,2,3,4,10; the answers to NEXT? / COUNt? are decoded and
//! compared with a 12-line bounded FIFO model that is fed with the errors the
//! recorder saw being pushed.

use std::collections::{BTreeMap, HashSet};

use super::{hex, Ctx};
use crate::drive::{IfaceDesc, ProcSpec, RunSpec, WriterKind};
use crate::ev::{esc, Ev};
use crate::out::{PropResult, Violation, J};
use crate::par;
use crate::prng::{fnv, Rng};
use crate::spec::{decode_response, QueueModel, Tok};
use microscpi::{Error, ErrorQueue, StaticErrorQueue};

const OPS: [&[u8]; 8] = [b"ZZ", b"ARG", b"ARG 999", b"ARG 1 2", b"CUST", b"SYST:ERR?", b"SYST:ERR:COUN?", b"OK"];
const OP_NAMES: [&str; 8] = ["undefined-header", "arity-fault", "conversion-fault", "syntax-fault", "custom-error", "NEXT?", "COUNT?", "valid-command"];
/// parse-level faults end their message (the rest of the message is discarded)
const OP_ENDS_MESSAGE: [bool; 8] = [true, false, false, true, false, false, false, false];
/// (the last three: the queue queries themselves called with a surplus parameter - a faulty unit
/// like any other: one error, and the queue is neither read nor changed otherwise)
const EXTRA_OPS: [&[u8]; 12] = [
    b"CUSTB?", b"HW", b"VAL?", b"SYSTEM:ERROR:NEXT?", b"CUSTZ", b"CUSTP", b"CUSTN", b"CUSTO", b"syst:err:next?", b"SYST:ERR? 1", b"SYST:ERR:COUN? 5",
    b"SYST:ERR:NEXT? 0,0",
];

#[derive(Default)]
struct Acc {
    res: PropResult,
    distinct: u64,
    distinct_set: HashSet<u64>,
    overflows: u64,
    overflow_then_read: u64,
    next_checked: u64,
    count_checked: u64,
    empty_reads: u64,
    by_cap: BTreeMap<usize, u64>,
    direct_ops: u64,
    tight_buffer_cases: u64,
    tight_buffer_failed_reads: u64,
}

/// Executes one operation sequence, each op its own message (or grouped), and
/// judges every NEXT?/COUNt? answer.  The sequence is executed unit by unit so
/// that each answer can be attributed to its operation.
fn run_sequence(acc: &mut Acc, iface: &IfaceDesc, cap: usize, ops: &[&[u8]], grouping: &[usize], via_process: bool, rng: &mut Rng) {
    // build messages according to the grouping (sizes); parse-level faults end a message
    let mut msgs: Vec<Vec<u8>> = Vec::new();
    let mut msg_of: Vec<usize> = Vec::new();
    let mut i = 0;
    let mut g = 0;
    while i < ops.len() {
        let size = grouping.get(g).copied().unwrap_or(1).max(1);
        g += 1;
        let mut m: Vec<u8> = Vec::new();
        let mut k = 0;
        while k < size && i < ops.len() {
            msg_of.push(msgs.len());
            if k > 0 {
                m.extend_from_slice(b";:");
            }
            m.extend_from_slice(ops[i]);
            // a syntax-level fault ends its message (the rest is discarded in any case)
            let ends = ops[i] == b"ZZ" || ops[i] == b"ARG 1 2";
            i += 1;
            k += 1;
            if ends {
                break;
            }
        }
        m.push(b'\n');
        msgs.push(m);
    }
    let refs: Vec<&[u8]> = msgs.iter().map(|m| &m[..]).collect();
    let stream: Vec<u8> = refs.concat();
    par::case_begin(&stream, [cap as u64, 0, 0, 0]);
    let out = if via_process {
        let chunks = super::c05::random_chunks(rng, stream.len());
        let pend = if rng.chance(1, 3) { rng.next() | 1 } else { 0 };
        (iface.process)(&ProcSpec { stream: &stream, n: 1024, chunks: &chunks, pend_seed: pend, fault_at: None })
    }
    else {
        (iface.run)(&RunSpec { inputs: &refs, writer: WriterKind::Rec(None), pend_seed: 0 })
    };
    par::case_end();
    if out.crashed() {
        acc.res.skipped_crash += 1;
        return;
    }
    acc.res.evaluations += 1;
    *acc.by_cap.entry(cap).or_default() += 1;
    acc.res.sample(|| J::obj(vec![("capacity", cap.into()), ("messages", J::strs(msgs.iter().map(|m| esc(m)))), ("via_process", via_process.into()), ("events", out.log.len().into())]));
    // Attribute answers to operations: replay ops against the model, consuming the
    // recorded pushes and the decoded answers in order.
    let pushes: Vec<(i16, String)> = out.log.iter().filter_map(|e| if let Ev::Error { num, text, .. } = e { Some((*num, text.clone())) } else { None }).collect();
    let mut outbytes: Vec<u8> = Vec::new();
    for e in &out.log {
        match e {
            Ev::Write(b) | Ev::AWrite(b) => outbytes.extend_from_slice(b),
            _ => {}
        }
    }
    let calls_seen = out.log.iter().filter(|e| matches!(e, Ev::Enter { .. })).count();
    let mut verdict: Result<(), (String, String)> = Ok(());
    let mut stats = (0u64, 0u64, 0u64, 0u64, 0u64);
    // policy false: every unit of a message runs; policy true: nothing after a unit that failed
    for skip_after_fault in [false, true] {
        let r = replay(cap, ops, &msg_of, &pushes, &outbytes, calls_seen, skip_after_fault);
        match r {
            Ok(st) => {
                stats = st;
                verdict = Ok(());
                break;
            }
            Err(e) => {
                if !skip_after_fault {
                    verdict = Err(e);
                }
            }
        }
    }
    if verdict.is_ok() {
        acc.next_checked += stats.0;
        acc.count_checked += stats.1;
        acc.empty_reads += stats.2;
        acc.overflows += stats.3;
        acc.overflow_then_read += stats.4;
    }
    if let Err((clause, detail)) = verdict {
        acc.res.add_violation(Violation {
            sig: format!("{}/cap{}", clause, if cap >= 4 { "4+".to_string() } else { cap.to_string() }),
            summary: format!("capacity {}: [{}]: {}", cap, ops.iter().map(|o| esc(o)).collect::<Vec<_>>().join(" | "), detail),
            witness: J::obj(vec![
                ("iface", J::s(iface.name)),
                ("capacity", cap.into()),
                ("messages", J::strs(msgs.iter().map(|m| esc(m)))),
                ("messages_hex", J::strs(msgs.iter().map(|m| hex(m)))),
                ("via_process", via_process.into()),
                ("pushes_seen", J::strs(pushes.iter().map(|(n, t)| format!("{},{}", n, t)))),
                ("output", J::s(esc(&outbytes))),
            ]),
        });
    }
}

/// Replays the operation sequence against the model.  Returns counters
/// (next checked, count checked, empty reads, overflows, reads after overflow).
fn replay(
    cap: usize, ops: &[&[u8]], msg_of: &[usize], pushes: &[(i16, String)], outbytes: &[u8], calls_seen: usize, skip_after_fault: bool,
) -> Result<(u64, u64, u64, u64, u64), (String, String)> {
    let mut model = QueueModel::new(cap);
    let mut pi = 0usize;
    let mut pos = 0usize;
    let mut overflowed = false;
    let mut st = (0u64, 0u64, 0u64, 0u64, 0u64);
    let mut failed_msg: Option<usize> = None;
    let mut calls_expected = 0usize;
    for (oi, op) in ops.iter().enumerate() {
        if skip_after_fault && failed_msg == Some(msg_of[oi]) {
            continue;
        }
        if matches!(*op, b"CUST" | b"CUSTB?" | b"HW" | b"OK" | b"VAL?" | b"CUSTZ" | b"CUSTP" | b"CUSTN" | b"CUSTO") {
            calls_expected += 1;
        }
        let is_next = *op == b"SYST:ERR?" || *op == b"SYSTEM:ERROR:NEXT?" || *op == b"syst:err:next?";
        let is_count = *op == b"SYST:ERR:COUN?";
        let is_val = *op == b"VAL?";
        let is_fault = !(is_next || is_count || is_val || *op == b"OK");
        if is_fault {
            failed_msg = Some(msg_of[oi]);
            match pushes.get(pi) {
                Some((n, t)) => {
                    if model.count() == cap {
                        overflowed = true;
                        st.3 += 1;
                    }
                    model.push(*n, t);
                    pi += 1;
                }
                None => return Err(("fault-not-pushed".into(), format!("operation \"{}\" pushed no error", esc(op)))),
            }
            continue;
        }
        if *op == b"OK" {
            continue;
        }
        let (toks, used) = decode_response(&outbytes[pos.min(outbytes.len())..])
            .map_err(|m| ("answer-missing-or-malformed".to_string(), format!("for \"{}\": {}", esc(op), m)))?;
        pos += used;
        if is_next {
            st.0 += 1;
            let (wn, wt) = model.pop();
            if wn == 0 {
                st.2 += 1;
            }
            if overflowed && wn != 0 {
                st.4 += 1;
            }
            if model.count() == 0 {
                overflowed = false;
            }
            let ok = match toks.as_slice() {
                [Tok::Num(n), Tok::Str(t)] => n.parse::<i64>().ok() == Some(wn as i64) && t == wt.as_bytes(),
                _ => false,
            };
            if !ok {
                let clause = if wn == -350 || matches!(toks.first(), Some(Tok::Num(n)) if n == "-350") {
                    "overflow-entry-wrong"
                }
                else if wn == 0 {
                    "empty-queue-answer-wrong"
                }
                else {
                    "fifo-order-wrong"
                };
                return Err((clause.into(), format!("NEXT? answered {:?} but the model holds {},\"{}\"", toks, wn, wt)));
            }
        }
        else if is_count {
            st.1 += 1;
            let ok = matches!(toks.as_slice(), [Tok::Num(n)] if n.parse::<usize>().ok() == Some(model.count()));
            if !ok {
                return Err(("count-wrong".into(), format!("COUNt? answered {:?} but the model holds {} entries", toks, model.count())));
            }
        }
    }
    if calls_expected != calls_seen {
        return Err(("handler-calls-inconsistent-with-reported-errors".into(), format!("{} user handlers ran, {} expected under this policy", calls_seen, calls_expected)));
    }
    if pi != pushes.len() {
        return Err(("unexpected-push".into(), format!("{} errors pushed, {} faults executed in the sequence", pushes.len(), pi)));
    }
    if pos != outbytes.len() {
        return Err(("unexpected-output".into(), format!("output beyond the expected answers: \"{}\"", esc(&outbytes[pos..]))));
    }
    Ok(st)
}

fn exhaustive_shard(iface: &IfaceDesc, cap: usize, depth: usize, first: usize) -> Acc {
    let mut acc = Acc::default();
    let mut rng = Rng::new(first as u64 + 1);
    // all sequences of exactly `depth` ops starting with op `first` (shorter ones are prefixes:
    // every answer of a prefix is judged when the longer sequence is judged)
    let mut idx = vec![0usize; depth];
    idx[0] = first;
    loop {
        let ops: Vec<&[u8]> = idx.iter().map(|i| OPS[*i]).collect();
        run_sequence(&mut acc, iface, cap, &ops, &[], false, &mut rng);
        acc.distinct += 1;
        let mut k = depth;
        loop {
            if k == 1 {
                return acc;
            }
            k -= 1;
            idx[k] += 1;
            if idx[k] < OPS.len() {
                break;
            }
            idx[k] = 0;
        }
    }
}

fn random_shard(ctx: &Ctx, devs: &[(usize, &'static IfaceDesc)], shard: usize, cases: u64) -> Acc {
    let mut acc = Acc::default();
    let mut rng = Rng::fork(ctx.seed, 0xC09_0000 + shard as u64);
    for _ in 0..cases {
        let (cap, iface) = *rng.pick(devs);
        // mostly 6..40 operations; now and then a long history (300..700) so that counters and
        // ring indices wrap many times
        let len = if rng.chance(1, 40) { rng.range(300, 700) } else { rng.range(6, 40) };
        let mut ops: Vec<&[u8]> = Vec::new();
        for _ in 0..len {
            // biased towards faults so that large queues overflow
            let o: &[u8] = match rng.below(12) {
                0..=5 => OPS[rng.below(5)],
                6 | 7 => OPS[5],
                8 => OPS[6],
                9 => OPS[7],
                _ => *rng.pick(&EXTRA_OPS),
            };
            ops.push(o);
        }
        let grouping: Vec<usize> = (0..len).map(|_| rng.range(1, 4)).collect();
        let key = ops.concat();
        acc.distinct_set.insert(fnv(&key) ^ cap as u64);
        run_sequence(&mut acc, iface, cap, &ops, &grouping, rng.chance(1, 3), &mut rng);
        if rng.chance(1, 4) {
            tight_buffer_case(&mut acc, iface, cap, &mut rng);
        }
    }
    acc
}

/// Histories through `process::<16>`: the answer to NEXT? on a non-empty queue does not fit
/// the response buffer, so that query fails itself.  That failure is an error like any other:
/// it must arrive in the queue (one push, whatever its number) and be counted and retrievable;
/// nothing of the oversized answer reaches the adapter.  Whether the entry NEXT? was about to
/// return is consumed by the failed attempt is not stated: both readings are accepted.
fn tight_buffer_case(acc: &mut Acc, iface: &IfaceDesc, cap: usize, rng: &mut Rng) {
    const N: usize = 16;
    let alphabet: [&[u8]; 7] = [b"ZZ", b"ARG 999", b"CUSTZ", b"SYST:ERR?", b"SYST:ERR:COUN?", b"OK", b"SYST:ERR?"];
    let len = rng.range(3, 14);
    let ops: Vec<&[u8]> = (0..len).map(|_| *rng.pick(&alphabet)).collect();
    let mut stream = Vec::new();
    for o in &ops {
        stream.extend_from_slice(o);
        stream.push(b'\n');
    }
    let chunks = super::c05::random_chunks(rng, stream.len());
    par::case_begin(&stream, [cap as u64, 16, 0, 0]);
    let out = (iface.process)(&ProcSpec { stream: &stream, n: N, chunks: &chunks, pend_seed: 0, fault_at: None });
    par::case_end();
    if out.crashed() {
        acc.res.skipped_crash += 1;
        return;
    }
    acc.res.evaluations += 1;
    acc.tight_buffer_cases += 1;
    let pushes: Vec<(i16, String)> = out.log.iter().filter_map(|e| if let Ev::Error { num, text, .. } = e { Some((*num, text.clone())) } else { None }).collect();
    let mut outbytes: Vec<u8> = Vec::new();
    for e in &out.log {
        if let Ev::AWrite(b) = e {
            outbytes.extend_from_slice(b);
        }
    }
    let mut last_err = String::new();
    for consumed_by_failed_read in [true, false] {
        let mut m = QueueModel::new(cap);
        let mut want: Vec<u8> = Vec::new();
        let mut pi = 0usize;
        let mut failed_reads = 0u64;
        let mut bad: Option<String> = None;
        for (k, o) in ops.iter().enumerate() {
            let mut expect_push = |m: &mut QueueModel, pi: &mut usize, why: &str| -> Option<String> {
                match pushes.get(*pi) {
                    Some((n, t)) => {
                        m.push(*n, t);
                        *pi += 1;
                        None
                    }
                    None => Some(format!("operation {} (\"{}\"): {} - no error reached the queue", k, esc(o), why)),
                }
            };
            match *o {
                b"ZZ" | b"ARG 999" | b"CUSTZ" => bad = expect_push(&mut m, &mut pi, "a faulty message"),
                b"OK" => {}
                b"SYST:ERR:COUN?" => want.extend_from_slice(format!("{}\n", m.count()).as_bytes()),
                _ => {
                    let (n, t) = m.items.front().cloned().unwrap_or((0, String::new()));
                    let answer = format!("{},\"{}\"\n", n, t);
                    if answer.len() <= N {
                        m.pop();
                        want.extend_from_slice(answer.as_bytes());
                    }
                    else {
                        failed_reads += 1;
                        if consumed_by_failed_read {
                            m.pop();
                        }
                        bad = expect_push(&mut m, &mut pi, "its answer does not fit the response buffer, the query failed");
                    }
                }
            }
            if bad.is_some() {
                break;
            }
        }
        if bad.is_none() && pi != pushes.len() {
            bad = Some(format!("{} errors reached the queue, {} operations failed", pushes.len(), pi));
        }
        if bad.is_none() && want != outbytes {
            bad = Some(format!("adapter received \"{}\", the model answers \"{}\"", esc(&outbytes), esc(&want)));
        }
        match bad {
            None => {
                acc.tight_buffer_failed_reads += failed_reads;
                return;
            }
            Some(b) => {
                if consumed_by_failed_read {
                    last_err = b;
                }
            }
        }
    }
    acc.res.add_violation(Violation {
        sig: format!("response-buffer-too-small-for-NEXT/cap{}", if cap >= 4 { "4+".to_string() } else { cap.to_string() }),
        summary: format!("capacity {}, process::<16>: [{}]: {}", cap, ops.iter().map(|o| esc(o)).collect::<Vec<_>>().join(" | "), last_err),
        witness: J::obj(vec![
            ("iface", J::s(iface.name)),
            ("capacity", cap.into()),
            ("stream", J::s(esc(&stream))),
            ("stream_hex", J::s(hex(&stream))),
            ("n", N.into()),
            ("chunks", J::Arr(chunks.iter().take(64).map(|c| J::Int(*c as i64)).collect())),
            ("pushes_seen", J::strs(pushes.iter().map(|(n, t)| format!("{},{}", n, t)))),
            ("output", J::s(esc(&outbytes))),
        ]),
    });
}

/// The ErrorQueue trait driven directly against the model.
fn direct<const N: usize>(acc: &mut Acc, rng: &mut Rng, steps: usize) {
    let errs = [
        Error::UndefinedHeader,
        Error::DataTypeError,
        Error::Custom(5, "five"),
        Error::QueueOverflow,
        Error::HardwareError,
        Error::Custom(-350, "custom, not the overflow marker"),
        Error::Custom(0, "zero"),
        Error::Custom(i16::MIN, "smallest"),
    ];
    let mut q: StaticErrorQueue<N> = StaticErrorQueue::new();
    let mut m = QueueModel::new(N);
    for step in 0..steps {
        acc.direct_ops += 1;
        match rng.below(5) {
            0 | 1 | 2 => {
                let e = *rng.pick(&errs);
                let t: &str = e.into();
                q.push_error(e);
                m.push(e.number(), t);
            }
            _ => {
                let got = q.pop_error().map(|e| {
                    let t: &str = e.into();
                    (e.number(), t.to_string())
                });
                let want = if m.count() == 0 { None } else { Some(m.pop()) };
                if got != want {
                    acc.res.add_violation(Violation {
                        sig: format!("direct-queue/pop-differs/cap{}", if N >= 4 { "4+".to_string() } else { N.to_string() }),
                        summary: format!("StaticErrorQueue<{}> step {}: pop gave {:?}, model {:?}", N, step, got, want),
                        witness: J::obj(vec![("capacity", N.into()), ("step", step.into())]),
                    });
                    return;
                }
            }
        }
        if q.error_count() != m.count() {
            acc.res.add_violation(Violation {
                sig: format!("direct-queue/count-differs/cap{}", if N >= 4 { "4+".to_string() } else { N.to_string() }),
                summary: format!("StaticErrorQueue<{}> step {}: count {} model {}", N, step, q.error_count(), m.count()),
                witness: J::obj(vec![("capacity", N.into()), ("step", step.into())]),
            });
            return;
        }
    }
    acc.res.evaluations += 1;
}

fn canary() -> Result<(), String> {
    let mut m = QueueModel::new(2);
    m.push(-113, "a");
    m.push(-104, "b");
    m.push(-120, "c");
    let x = m.pop();
    let y = m.pop();
    let z = m.pop();
    if x != (-113, "a".to_string()) || y != (-350, "Queue overflow".to_string()) || z != (0, String::new()) {
        return Err("C09 canary: queue model wrong".into());
    }
    Ok(())
}

pub fn run(ctx: &Ctx) -> PropResult {
    let mut res = PropResult::default();
    if let Err(e) = canary() {
        res.inconclusive = Some(e);
        return res;
    }
    let caps = [1usize, 2, 3, 4, 5, 8, 10, 16];
    let devs: Vec<(usize, &'static IfaceDesc)> = caps.iter().map(|c| (*c, ctx.iface(&format!("qdev{}", c)))).collect();
    for (c, d) in &devs {
        assert_eq!(d.queue_cap, *c);
    }
    let depth = if ctx.thorough { 7 } else { 6 };
    let n_ex = caps.len() * OPS.len();
    let rand_shards = 32usize;
    let rand_cases = ctx.scaled(if ctx.thorough { 100_000 } else { 5_000 });
    let accs = par::run_shards(
        n_ex + rand_shards + 1,
        ctx.threads,
        |i| {
            if i < n_ex {
                let (cap, iface) = devs[i / OPS.len()];
                exhaustive_shard(iface, cap, depth, i % OPS.len())
            }
            else if i < n_ex + rand_shards {
                random_shard(ctx, &devs, i - n_ex, rand_cases)
            }
            else {
                let mut acc = Acc::default();
                let mut rng = Rng::fork(ctx.seed, 0xC09_9999);
                for _ in 0..ctx.scaled(300) {
                    direct::<1>(&mut acc, &mut rng, 900);
                    direct::<2>(&mut acc, &mut rng, 900);
                    direct::<3>(&mut acc, &mut rng, 900);
                    direct::<4>(&mut acc, &mut rng, 900);
                    direct::<5>(&mut acc, &mut rng, 900);
                    direct::<7>(&mut acc, &mut rng, 900);
                    direct::<8>(&mut acc, &mut rng, 900);
                    direct::<10>(&mut acc, &mut rng, 900);
                    direct::<16>(&mut acc, &mut rng, 900);
                    direct::<64>(&mut acc, &mut rng, 900);
                }
                acc
            }
        },
        |h| ctx.on_hang(h),
    );
    let mut by_cap: BTreeMap<usize, u64> = BTreeMap::new();
    let (mut distinct, mut ov, mut ovr, mut nx, mut ct, mut em, mut dops) = (0u64, 0, 0, 0, 0, 0, 0);
    let (mut tight, mut tight_failed) = (0u64, 0u64);
    for acc in accs {
        distinct += acc.distinct + acc.distinct_set.len() as u64;
        ov += acc.overflows;
        ovr += acc.overflow_then_read;
        nx += acc.next_checked;
        ct += acc.count_checked;
        em += acc.empty_reads;
        dops += acc.direct_ops;
        tight += acc.tight_buffer_cases;
        tight_failed += acc.tight_buffer_failed_reads;
        for (k, v) in acc.by_cap {
            *by_cap.entry(k).or_default() += v;
        }
        res.merge(acc.res);
    }
    res.distinct = distinct;
    res.rule = format!(
        "exhaustive: every sequence of {} operations over the 8-operation alphabet {:?} for each capacity in {:?}, each operation its own message on one device (all shorter sequences are prefixes); random: sequences of 6..40 operations biased towards faults, randomly grouped into compound messages (syntax-level faults last in their message; after an execution-level fault both policies C06 allows - run all or none of the remaining units - are accepted), a third through process; direct: the ErrorQueue trait of StaticErrorQueue<N> against the model. distinct = distinct operation sequences",
        depth, OP_NAMES, caps
    );
    let _ = OP_ENDS_MESSAGE;
    res.cov("exhaustive", true);
    res.cov("exhaustive_depth", depth);
    res.cov("next_answers_checked", nx);
    res.cov("count_answers_checked", ct);
    res.cov("reads_of_an_empty_queue", em);
    res.cov("pushes_into_a_full_queue", ov);
    res.cov("reads_after_an_overflow", ovr);
    res.cov("direct_trait_operations", dops);
    res.cov("histories_through_a_16_byte_response_buffer", tight);
    res.cov("next_queries_whose_answer_did_not_fit_and_had_to_be_queued_as_an_error", tight_failed);
    res.cov("sequences_by_capacity", J::Obj(by_cap.into_iter().map(|(k, v)| (k.to_string(), J::Int(v as i64))).collect()));
    res.samples.truncate(5);
    let described: Vec<J> = vec![J::s("cap 2: ZZ | ARG | CUST | SYST:ERR? | SYST:ERR:COUN? | SYST:ERR? | SYST:ERR?  ->  -113 / 1 / -350 / 0,\"\"")];
    res.samples.extend(described.into_iter().take(1));
    res.assumptions = vec!["error descriptions contain no double quote (quoting is C04's clause)".into()];
    if ov == 0 || ovr == 0 || em == 0 || ct == 0 {
        res.inconclusive = Some("overflow / empty-read coverage floor not reached".into());
    }
    res
}
