//! C06 — a faulty message is reported once and never affects later messages.
//!
//! Histories of complete messages with labelled faults; the expectation is
//! computed from the ASTs (units before the fault execute, exactly one error,
//! the faulty unit's handler is not invoked unless the fault is its own, all
//! or none of the units after it, every later message as if nothing
//! happened).  A second, metamorphic oracle compares the history with the same
//! history from which the faulty messages were removed.

use std::collections::{BTreeMap, HashSet};

use super::c05::random_chunks;
use super::{hex, Ctx};
use crate::drive::{IfaceDesc, ProcSpec, RunOut, RunSpec, WriterKind};
use crate::ev::esc;
use crate::out::{PropResult, Violation, J};
use crate::par;
use crate::prng::{fnv, Rng};
use crate::sem::{check_streams, streams, Sem, Streams};
use crate::wl::{ErrSpec, Expect, Fault, Gen, GenOpts, LitOpts, MsgAst, Style, ALL_FAULTS};

#[derive(Default)]
struct Acc {
    res: PropResult,
    matrix: BTreeMap<(String, u8, &'static str), u64>,
    hist: HashSet<u64>,
    faulty_msgs: u64,
    valid_msgs: u64,
    errors_seen: BTreeMap<i16, u64>,
    all_after: u64,
    none_after: u64,
}

#[derive(Clone)]
struct HMsg {
    bytes: Vec<u8>,
    /// expectation if the units after a fault are executed / are not executed
    exp_all: Vec<Expect>,
    exp_none: Vec<Expect>,
    fault: Option<(Fault, u8)>,
}

fn build_msg(ast: &MsgAst, fault: Option<(Fault, u8)>, style: &Style) -> HMsg {
    let bytes = ast.render(style);
    let exp_all = ast.expects();
    let mut exp_none = Vec::new();
    let mut after = false;
    for u in &ast.units {
        if after {
            break;
        }
        exp_none.extend(u.expects.iter().cloned());
        if u.fault.is_some() {
            after = true;
        }
    }
    HMsg { bytes, exp_all, exp_none, fault }
}

/// Tries every all/none combination for the faulty messages.
fn check_history(msgs: &[HMsg], got: &Streams) -> Result<u32, String> {
    let faulty: Vec<usize> =
        msgs.iter().enumerate().filter(|(_, m)| m.fault.is_some() && m.exp_all.len() != m.exp_none.len()).map(|(i, _)| i).collect();
    let combos = 1u32 << faulty.len();
    let mut first_err = String::new();
    for c in 0..combos {
        let mut exp: Vec<Expect> = Vec::new();
        for (i, m) in msgs.iter().enumerate() {
            let none = faulty.iter().position(|f| *f == i).map(|k| c & (1 << k) != 0).unwrap_or(false);
            exp.extend(if none { m.exp_none.iter().cloned() } else { m.exp_all.iter().cloned() });
        }
        match check_streams(&exp, got) {
            Ok(()) => return Ok(c),
            Err(e) => {
                if c == 0 {
                    first_err = e;
                }
            }
        }
    }
    Err(first_err)
}

fn classify(msgs: &[HMsg], got: &Streams) -> String {
    // discriminating feature for the signature
    let want_errs = msgs.iter().filter(|m| m.fault.is_some()).count();
    let got_errs = got.errs();
    let parse_level = msgs.iter().any(|m| m.fault.map(|f| f.0.parse_level()).unwrap_or(false));
    let lvl = if parse_level { "parse-level-fault" } else { "execute-level-fault" };
    if got_errs > want_errs {
        format!("{}/reported-more-than-once", lvl)
    }
    else if got_errs < want_errs {
        format!("{}/error-not-reported", lvl)
    }
    else {
        let want_calls_min: usize = msgs.iter().map(|m| m.exp_none.iter().filter(|e| matches!(e, Expect::Call { .. })).count()).sum();
        if got.calls() < want_calls_min {
            format!("{}/later-or-earlier-unit-not-executed", lvl)
        }
        else {
            format!("{}/events-differ", lvl)
        }
    }
}

#[derive(Clone, Copy, Debug, PartialEq)]
enum Delivery {
    RunPerMsg,
    RunOneBuffer,
    ProcessOneRead,
    ProcessByteWise,
    ProcessRandom,
    ProcessTightN,
}

const DELIVERIES: [Delivery; 6] = [
    Delivery::RunPerMsg,
    Delivery::RunOneBuffer,
    Delivery::ProcessOneRead,
    Delivery::ProcessByteWise,
    Delivery::ProcessRandom,
    Delivery::ProcessTightN,
];

impl Delivery {
    fn name(&self) -> &'static str {
        match self {
            Delivery::RunPerMsg => "run-per-message",
            Delivery::RunOneBuffer => "run-one-buffer",
            Delivery::ProcessOneRead => "process-one-read",
            Delivery::ProcessByteWise => "process-byte-wise",
            Delivery::ProcessRandom => "process-random-chunks",
            Delivery::ProcessTightN => "process-smallest-N",
        }
    }
}

fn deliver(iface: &IfaceDesc, msgs: &[&[u8]], d: Delivery, rng: &mut Rng, resp_max: usize) -> Option<(RunOut, J)> {
    let stream: Vec<u8> = msgs.concat();
    let longest = msgs.iter().map(|m| m.len()).max().unwrap_or(1).max(resp_max).max(1);
    let pend = if rng.chance(1, 3) { rng.next() | 1 } else { 0 };
    let ns = (iface.ns)();
    let big = *ns.iter().filter(|n| **n >= longest).min().or(ns.iter().max()).unwrap();
    let biggest = *ns.iter().max().unwrap();
    if biggest < longest {
        return None;
    }
    Some(match d {
        Delivery::RunPerMsg => {
            let out = (iface.run)(&RunSpec { inputs: msgs, writer: WriterKind::Rec(None), pend_seed: pend });
            (out, J::obj(vec![("delivery", J::s(d.name())), ("pend_seed", pend.into())]))
        }
        Delivery::RunOneBuffer => {
            let out = (iface.run)(&RunSpec { inputs: &[&stream], writer: WriterKind::Rec(None), pend_seed: pend });
            (out, J::obj(vec![("delivery", J::s(d.name())), ("pend_seed", pend.into())]))
        }
        _ => {
            let (n, chunks) = match d {
                Delivery::ProcessOneRead => (biggest, vec![]),
                Delivery::ProcessByteWise => (biggest, vec![1usize; stream.len()]),
                Delivery::ProcessRandom => (biggest, random_chunks(rng, stream.len())),
                _ => (big, random_chunks(rng, stream.len())),
            };
            let out = (iface.process)(&ProcSpec { stream: &stream, n, chunks: &chunks, pend_seed: pend, fault_at: None });
            (
                out,
                J::obj(vec![
                    ("delivery", J::s(d.name())),
                    ("n", n.into()),
                    ("chunks", J::Arr(chunks.iter().take(64).map(|c| J::Int(if *c == usize::MAX { -1 } else { *c as i64 })).collect())),
                    ("pend_seed", pend.into()),
                ]),
            )
        }
    })
}

fn shard(ctx: &Ctx, ifaces: &[&'static IfaceDesc], shard: usize, cases: u64) -> Acc {
    let mut acc = Acc::default();
    let mut rng = Rng::fork(ctx.seed, 0xC06_0000 + shard as u64);
    for case in 0..cases {
        let iface = *rng.pick(ifaces);
        let gen = Gen::new(
            iface,
            GenOpts {
                lit: LitOpts { payload_newline: false, wild_payload: true, max_payload: 8 },
                max_units: 3,
                trailing_semicolon_16: 0,
                ..Default::default()
            },
        );
        let k = rng.range(1, if ctx.thorough { 6 } else { 5 });
        let mut msgs: Vec<HMsg> = Vec::new();
        let mut st = Style::plain();
        for _ in 0..k {
            st.seed = rng.next();
            st.case = rng.below(3) as u8;
            st.ws_unit_start = if rng.chance(1, 5) { vec![*rng.pick(&[b' ', b'\t', 0u8, 0x0b])] } else { vec![] };
            st.crlf = rng.chance(1, 6);
            match rng.below(10) {
                0 => msgs.push(HMsg { bytes: b"\n".to_vec(), exp_all: vec![], exp_none: vec![], fault: None }),
                1 => msgs.push(HMsg { bytes: b" \t\n".to_vec(), exp_all: vec![], exp_none: vec![], fault: None }),
                2..=5 => {
                    let f = ALL_FAULTS[(case as usize + shard + msgs.len()) % ALL_FAULTS.len()];
                    let pos = rng.below(3) as u8;
                    match gen.faulty_msg(f, pos, &mut rng) {
                        Some(ast) => msgs.push(build_msg(&ast, Some((f, pos)), &st)),
                        None => {
                            let ast = gen.valid_msg(&mut rng);
                            msgs.push(build_msg(&ast, None, &st));
                        }
                    }
                }
                _ => {
                    let ast = gen.valid_msg(&mut rng);
                    msgs.push(build_msg(&ast, None, &st));
                }
            }
        }
        let refs: Vec<&[u8]> = msgs.iter().map(|m| &m.bytes[..]).collect();
        let stream: Vec<u8> = refs.concat();
        acc.hist.insert(fnv(&stream));
        acc.faulty_msgs += msgs.iter().filter(|m| m.fault.is_some()).count() as u64;
        acc.valid_msgs += msgs.iter().filter(|m| m.fault.is_none()).count() as u64;
        par::case_begin(&stream, [shard as u64, case, 0, 0]);

        // history without the faulty messages (metamorphic reference)
        let clean: Vec<&[u8]> = msgs.iter().filter(|m| m.fault.is_none()).map(|m| &m.bytes[..]).collect();
        let clean_out = (iface.run)(&RunSpec { inputs: &clean, writer: WriterKind::Rec(None), pend_seed: 0 });
        let clean_streams = streams(&clean_out.log);
        // largest response of a single message (so that N can be chosen to hold it)
        let probe = (iface.run)(&RunSpec { inputs: &refs, writer: WriterKind::Rec(None), pend_seed: 0 });
        let mut resp_max = 0usize;
        let mut cur = 0usize;
        for e in &probe.log {
            match e {
                crate::ev::Ev::Mark(_) => cur = 0,
                crate::ev::Ev::Write(b) => {
                    cur += b.len();
                    resp_max = resp_max.max(cur);
                }
                _ => {}
            }
        }

        for d in DELIVERIES {
            let (out, cfg) = match deliver(iface, &refs, d, &mut rng, resp_max) {
                Some(x) => x,
                None => continue,
            };
            if out.crashed() {
                acc.res.skipped_crash += 1;
                continue;
            }
            acc.res.evaluations += 1;
            let got = streams(&out.log);
            acc.res.sample(|| J::obj(vec![("iface", J::s(iface.name)), ("messages", J::strs(msgs.iter().map(|m| esc(&m.bytes)))), ("faults", J::strs(msgs.iter().map(|m| format!("{:?}", m.fault)))), ("config", cfg.clone()), ("observed", J::strs(got.show()))]));
            for s in &got.ce {
                if let Sem::Err { num, .. } = s {
                    *acc.errors_seen.entry(*num).or_default() += 1;
                }
            }
            for m in &msgs {
                if let Some((f, pos)) = m.fault {
                    *acc.matrix.entry((format!("{:?}", f), pos, d.name())).or_default() += 1;
                }
            }
            let mut bad: Option<(String, String)> = None;
            match check_history(&msgs, &got) {
                Ok(c) => {
                    if c == 0 {
                        acc.all_after += 1;
                    }
                    else {
                        acc.none_after += 1;
                    }
                }
                Err(e) => bad = Some((classify(&msgs, &got), e)),
            }
            // metamorphic: removing the faulty messages' own events must give the clean history.
            if bad.is_none() {
                // events of valid messages are fully determined, so project both sides on
                // handler calls of declarations that do not fail and compare response bytes
                let proj = |s: &Streams| -> Vec<Sem> {
                    s.ce.iter().filter(|x| matches!(x, Sem::Call { ok: true, .. })).cloned().collect()
                };
                let g = proj(&got);
                let c = proj(&clean_streams);
                // calls of the faulty messages (units before / after the fault) are extra on the left:
                // the clean history's calls must be a subsequence of the faulty history's calls
                let mut it = g.iter();
                let sub = c.iter().all(|x| it.any(|y| y == x));
                if !sub {
                    bad = Some((
                        "metamorphic/later-message-differs-from-history-without-the-fault".into(),
                        "handler calls of the valid messages are not a subsequence of the observed calls".into(),
                    ));
                }
            }
            if let Some((sig, detail)) = bad {
                let fl: Vec<String> = msgs
                    .iter()
                    .map(|m| match m.fault {
                        Some((f, p)) => format!("{:?}@{}", f, p),
                        None => "valid".into(),
                    })
                    .collect();
                acc.res.add_violation(Violation {
                    sig: format!("{}/{}", sig, if d.name().starts_with("run") { d.name() } else { "process" }),
                    summary: format!("history [{}] via {}: {}", fl.join(", "), d.name(), detail),
                    witness: J::obj(vec![
                        ("iface", J::s(iface.name)),
                        ("decls", J::strs(iface.decls.iter().map(|x| x.cmd.to_string()))),
                        ("messages", J::strs(msgs.iter().map(|m| esc(&m.bytes)))),
                        ("messages_hex", J::strs(msgs.iter().map(|m| hex(&m.bytes)))),
                        ("faults", J::strs(fl)),
                        ("config", cfg),
                        ("observed", J::strs(got.show())),
                        ("without_faulty_messages", J::strs(clean_streams.show())),
                    ]),
                });
            }
        }
        par::case_end();
    }
    acc
}

fn canary() -> Result<(), String> {
    // one faulty message: two errors reported instead of one must be rejected
    let m = HMsg {
        bytes: b"ZZ\n".to_vec(),
        exp_all: vec![Expect::Err(ErrSpec::Num(-113))],
        exp_none: vec![Expect::Err(ErrSpec::Num(-113))],
        fault: Some((Fault::UnknownMnem, 0)),
    };
    let e = Sem::Err { num: -113, text: "Undefined header".into(), dbg: "UndefinedHeader".into() };
    let once = Streams { ce: vec![e.clone()], out: vec![] };
    let twice = Streams { ce: vec![e.clone(), e], out: vec![] };
    let never = Streams::default();
    if check_history(&[m.clone()], &once).is_err() || check_history(&[m.clone()], &twice).is_ok() || check_history(&[m], &never).is_ok() {
        return Err("C06 canary: history oracle misjudged a fabricated log".into());
    }
    Ok(())
}

pub fn run(ctx: &Ctx) -> PropResult {
    let mut res = PropResult::default();
    if let Err(e) = canary() {
        res.inconclusive = Some(e);
        return res;
    }
    let mut all: Vec<&'static IfaceDesc> = ctx.built(&["mini", "pzoo"]);
    all.extend(ctx.random_ifaces());
    let shards = 64usize;
    let cases = ctx.scaled(if ctx.thorough { 80_000 } else { 5_000 });
    let accs = par::run_shards(shards, ctx.threads, |i| shard(ctx, &all, i, cases), |h| ctx.on_hang(h));
    let mut matrix: BTreeMap<(String, u8, &'static str), u64> = BTreeMap::new();
    let mut hist = HashSet::new();
    let mut errors_seen: BTreeMap<i16, u64> = BTreeMap::new();
    let (mut fm, mut vm, mut alla, mut nonea) = (0, 0, 0, 0);
    for acc in accs {
        for (k, v) in acc.matrix {
            *matrix.entry(k).or_default() += v;
        }
        hist.extend(acc.hist);
        for (k, v) in acc.errors_seen {
            *errors_seen.entry(k).or_default() += v;
        }
        fm += acc.faulty_msgs;
        vm += acc.valid_msgs;
        alla += acc.all_after;
        nonea += acc.none_after;
        res.merge(acc.res);
    }
    res.distinct = hist.len() as u64;
    res.rule = format!(
        "random histories of 1..6 complete messages (valid, empty, white-space-only, or with exactly one faulty unit of kind k at position class first/middle/last) over {} interfaces, each delivered 6 ways (run per message, one run buffer, process one read / byte-wise / random chunks / smallest fitting N), with Pending injection in a third; oracle = generator-side expectation with all-or-none alternatives + subsequence relation against the history without its faulty messages. distinct = distinct history byte strings",
        all.len()
    );
    // coverage matrix fault kind x position x delivery must be populated
    let mut missing = Vec::new();
    for f in ALL_FAULTS {
        for pos in 0..3u8 {
            for d in DELIVERIES {
                if !matrix.contains_key(&(format!("{:?}", f), pos, d.name())) {
                    missing.push(format!("{:?}/{}/{}", f, pos, d.name()));
                }
            }
        }
    }
    let mut by_fault: BTreeMap<String, u64> = BTreeMap::new();
    for ((f, _, _), v) in &matrix {
        *by_fault.entry(f.clone()).or_default() += v;
    }
    res.cov("matrix_cells_populated", matrix.len());
    res.cov("matrix_cells_total", ALL_FAULTS.len() * 3 * DELIVERIES.len());
    res.cov("executions_by_fault_kind", J::Obj(by_fault.into_iter().map(|(k, v)| (k, J::Int(v as i64))).collect()));
    res.cov("faulty_messages", fm);
    res.cov("valid_messages", vm);
    res.cov("histories_where_units_after_fault_all_ran", alla);
    res.cov("histories_where_units_after_fault_none_ran", nonea);
    res.cov("error_numbers_observed", J::Obj(errors_seen.into_iter().map(|(k, v)| (k.to_string(), J::Int(v as i64))).collect()));
    res.samples.truncate(5);
    let described: Vec<J> = vec![J::s("[\"A:B 1;ZZQ;:A\\n\" (UnknownMnem@1), \"A?\\n\"] via process-byte-wise")];
    res.samples.extend(described.into_iter().take(1));
    res.assumptions = vec![
        "faulty messages contain no newline inside a payload (the property's premise)".into(),
        "responses fit the buffers (oversized responses are C05's workload)".into(),
    ];
    if !missing.is_empty() {
        res.inconclusive = Some(format!("coverage matrix not fully populated, e.g. {:?}", &missing[..missing.len().min(5)]));
    }
    res
}
