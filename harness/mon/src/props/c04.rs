//! C04 — responses are complete, well-formed and decode to the returned value.
//!
//! Every supported response type, values scripted by the harness, through the
//! macro-generated dispatcher and `Interface::run` into the recording writer,
//! the library's `heapless::Vec` writer and (feature std) its `std::Vec`
//! writer; plus `Response::write_response` called directly for volume.  The
//! oracle *decodes* the bytes (IEEE 488.2 response data tokenizer) and compares
//! with the value the handler returned; it checks newline + flush order and
//! that commands / failed / rejected / undefined units produce no output.

use std::collections::{BTreeMap, HashSet};
use std::io::Write as _;

use super::{hex, Ctx};
use crate::drive::{drive_run, RunSpec, WriterKind};
use crate::ev::{esc, Ev, Leaf};
use crate::exec::block_on;
use crate::io::RecWriter;
use crate::out::{PropResult, Violation, J};
use crate::par;
use crate::prng::{fnv, Rng};
use crate::rzoo::{self, RDev, Script};
use crate::sem::{check_unit_order, streams};
use crate::spec::{decode_response, match_leaves};
use microscpi::{Arbitrary, Response};

#[derive(Default)]
struct Acc {
    exact_fill: u64,
    res: PropResult,
    distinct: HashSet<u64>,
    distinct_direct: u64,
    by_type: BTreeMap<String, u64>,
    writers: BTreeMap<&'static str, u64>,
    no_output_cases: u64,
    order_checked: u64,
    floatlog: Vec<String>,
    f32_direct: u64,
    f64_direct: u64,
    nan_inf: u64,
    quotes_in_strings: u64,
    max_block: usize,
}

fn violation(acc: &mut Acc, sig: String, summary: String, w: Vec<(&str, J)>) {
    acc.res.add_violation(Violation { sig, summary, witness: J::obj(w) });
}

fn leaf_kind(l: &[Leaf]) -> &'static str {
    match l.first() {
        None => "unit",
        Some(Leaf::Int(_)) => "integer",
        Some(Leaf::F32(_)) => "f32",
        Some(Leaf::F64(_)) => "f64",
        Some(Leaf::Bool(_)) => "bool",
        Some(Leaf::Str(_)) => "string",
        Some(Leaf::Chars(_)) => "chars",
        Some(Leaf::Blk(_)) => "block",
    }
}

/// Judge response bytes (without the trailing newline added by `execute`) of a direct call.
fn judge_bytes(acc: &mut Acc, ty: &str, what: &str, bytes: &[u8], leaves: &[Leaf]) -> bool {
    let mut with_nl = bytes.to_vec();
    with_nl.push(b'\n');
    let r = decode_response(&with_nl).and_then(|(toks, used)| {
        if used != with_nl.len() {
            return Err(format!("{} bytes decode, {} written", used, with_nl.len()));
        }
        match_leaves(&toks, leaves)
    });
    if let Err(e) = r {
        let clause = if e.contains("does not decode") || e.contains("unexpected byte") || e.contains("neither") || e.contains("unterminated") || e.contains("bytes decode") || e.contains("items decoded") {
            "malformed-response"
        }
        else {
            "decodes-to-a-different-value"
        };
        violation(
            acc,
            format!("{}/{}", clause, ty),
            format!("{} {}: \"{}\": {}", ty, what, esc(&bytes[..bytes.len().min(120)]), e),
            vec![("type", J::s(ty)), ("value", J::s(what)), ("bytes", J::s(esc(bytes))), ("bytes_hex", J::s(hex(&bytes[..bytes.len().min(400)]))), ("expected", J::s(format!("{:?}", &leaves[..leaves.len().min(6)])))],
        );
        return false;
    }
    true
}

/// `Response::write_response` into the library's heapless writer and the recording writer.
fn direct<T: Response>(acc: &mut Acc, ty: &str, what: impl Fn() -> String, v: &T, leaves: &[Leaf]) {
    acc.res.evaluations += 1;
    acc.distinct_direct += 1;
    *acc.by_type.entry(format!("direct/{}", ty)).or_default() += 1;
    let mut h: heapless::Vec<u8, 1024> = heapless::Vec::new();
    let r1 = block_on(v.write_response(&mut h), 1000);
    let _ = crate::ev::take();
    let mut rw = RecWriter::new(None);
    let r2 = block_on(v.write_response(&mut rw), 1000);
    let mut rb: Vec<u8> = Vec::new();
    for e in crate::ev::take() {
        if let Ev::Write(b) = e {
            rb.extend_from_slice(&b);
        }
    }
    if !matches!(r1, Ok(Ok(()))) || !matches!(r2, Ok(Ok(()))) {
        violation(acc, format!("write-failed/{}", ty), format!("{} {}: write_response failed: {:?} / {:?}", ty, what(), r1, r2), vec![("type", J::s(ty)), ("value", J::s(what()))]);
        return;
    }
    if h.as_slice() != rb.as_slice() {
        violation(
            acc,
            format!("writers-disagree/{}", ty),
            format!("{} {}: heapless \"{}\" vs pass-through \"{}\"", ty, what(), esc(&h), esc(&rb)),
            vec![("type", J::s(ty)), ("value", J::s(what())), ("heapless", J::s(esc(&h))), ("pass_through", J::s(esc(&rb)))],
        );
        return;
    }
    #[cfg(feature = "std")]
    {
        let mut sv: Vec<u8> = Vec::new();
        let r3 = block_on(v.write_response(&mut sv), 1000);
        if !matches!(r3, Ok(Ok(()))) || sv != rb {
            violation(
                acc,
                format!("writers-disagree/{}", ty),
                format!("{} {}: std Vec \"{}\" vs pass-through \"{}\"", ty, what(), esc(&sv), esc(&rb)),
                vec![("type", J::s(ty)), ("value", J::s(what())), ("std_vec", J::s(esc(&sv))), ("pass_through", J::s(esc(&rb)))],
            );
            return;
        }
    }
    judge_bytes(acc, ty, &what(), &rb, leaves);
}

fn f32_direct(acc: &mut Acc, bits: u32, log: bool) {
    let v = f32::from_bits(bits);
    acc.f32_direct += 1;
    if !v.is_finite() {
        acc.nan_inf += 1;
    }
    // fast path: format once into the heapless writer, judge; the cross-writer check is sampled
    let mut h: heapless::Vec<u8, 128> = heapless::Vec::new();
    let r = block_on(v.write_response(&mut h), 100);
    acc.res.evaluations += 1;
    if !matches!(r, Ok(Ok(()))) {
        violation(acc, "write-failed/f32".into(), format!("f32 0x{:08x}: {:?}", bits, r), vec![("bits", J::s(format!("0x{:08x}", bits)))]);
        return;
    }
    let ok = judge_bytes(acc, "f32", &format!("0x{:08x}", bits), &h, &[Leaf::F32(bits)]);
    if ok && log && v.is_finite() {
        acc.floatlog.push(format!("f32 {:08x} {}", bits, String::from_utf8_lossy(&h)));
    }
}

fn f64_direct(acc: &mut Acc, bits: u64, log: bool) {
    let v = f64::from_bits(bits);
    acc.f64_direct += 1;
    if !v.is_finite() {
        acc.nan_inf += 1;
    }
    let mut h: heapless::Vec<u8, 512> = heapless::Vec::new();
    let r = block_on(v.write_response(&mut h), 100);
    acc.res.evaluations += 1;
    if !matches!(r, Ok(Ok(()))) {
        violation(acc, "write-failed/f64".into(), format!("f64 0x{:016x}: {:?}", bits, r), vec![("bits", J::s(format!("0x{:016x}", bits)))]);
        return;
    }
    let ok = judge_bytes(acc, "f64", &format!("0x{:016x}", bits), &h, &[Leaf::F64(bits)]);
    if ok && log && v.is_finite() {
        acc.floatlog.push(format!("f64 {:016x} {}", bits, String::from_utf8_lossy(&h)));
    }
}

const STR_PIECES: [&str; 20] = ["\"", "a", ",", ";", "\n", "\u{e9}", "\u{1F600}", " ", "\"\"", "'", "#", "x\"y", "\r\n", "\t", "\\", "Z", "0", ":", "\u{0}", "\u{3a9}"];

fn rand_string(rng: &mut Rng, max: usize) -> String {
    if rng.chance(1, 16) {
        // nothing but double quotes
        return "\"".repeat(rng.range(1, 4));
    }
    let n = rng.below(max + 1);
    let mut s = String::new();
    for _ in 0..n {
        let p: &str = *rng.pick(&STR_PIECES[..]);
        s.push_str(p);
    }
    s
}

fn rand_script(rng: &mut Rng) -> Script {
    fn pick<T: Copy>(rng: &mut Rng, lo: T, hi: T, r: T) -> T {
        match rng.below(4) {
            0 => lo,
            1 => hi,
            _ => r,
        }
    }
    let f32v = match rng.below(8) {
        0 => f32::NAN,
        1 => f32::INFINITY,
        2 => f32::NEG_INFINITY,
        3 => -0.0,
        4 => f32::MAX,
        5 => f32::MIN_POSITIVE,
        _ => f32::from_bits(rng.next() as u32),
    };
    let f64v = match rng.below(8) {
        0 => f64::NAN,
        1 => f64::INFINITY,
        2 => f64::NEG_INFINITY,
        3 => -0.0,
        4 => f64::MAX,
        5 => f64::from_bits(1),
        6 => f32::from_bits(rng.next() as u32) as f64,
        _ => f64::from_bits(rng.next()),
    };
    let r = rng.next();
    Script {
        u8: pick(rng, 0, u8::MAX, r as u8),
        i8: pick(rng, i8::MIN, i8::MAX, r as i8),
        u16: pick(rng, 0, u16::MAX, r as u16),
        i16: pick(rng, i16::MIN, i16::MAX, r as i16),
        u32: pick(rng, 0, u32::MAX, r as u32),
        i32: pick(rng, i32::MIN, i32::MAX, r as i32),
        u64: pick(rng, 0, u64::MAX, r),
        i64: pick(rng, i64::MIN, i64::MAX, r as i64),
        usize: pick(rng, 0, usize::MAX, r as usize),
        isize: pick(rng, isize::MIN, isize::MAX, r as isize),
        f32: f32v,
        f64: f64v,
        bool: r & 1 == 1,
        string: rand_string(rng, 10),
        bytes: (0..rng.below(40)).map(|_| rng.byte()).collect(),
        chars: rng.pick(&["ON", "MAXimum", "DEF", "A1_b", "X"]).to_string(),
        err: rng.below(6),
        ints: (0..rng.below(6)).map(|_| rng.next() as i32).collect(),
        floats: (0..rng.below(5)).map(|_| f64::from_bits(rng.next())).collect(),
        shorts: (0..rng.below(9)).map(|_| rng.next() as u16).collect(),
    }
}

fn e2e_writers() -> Vec<(&'static str, WriterKind)> {
    let mut v = vec![("pass-through", WriterKind::Rec(None)), ("heapless::Vec<u8,4096>", WriterKind::Heapless(4096))];
    if cfg!(feature = "std") {
        v.push(("std::Vec<u8>", WriterKind::Std));
    }
    v
}

fn e2e_shard(ctx: &Ctx, shard: usize, scripts: u64) -> Acc {
    let mut acc = Acc::default();
    let mut rng = Rng::fork(ctx.seed, 0xC04_0000 + shard as u64);
    let queries = rzoo::queries();
    let writers = e2e_writers();
    for _ in 0..scripts {
        let script = rand_script(&mut rng);
        rzoo::set_script(&script);
        if script.string.contains('"') {
            acc.quotes_in_strings += 1;
        }
        // the response of every query as `run` wrote it (reference for the process delivery below)
        let mut reference: Vec<(&'static str, Vec<u8>)> = Vec::new();
        for (q, leaves_of) in &queries {
            let leaves = leaves_of(&script);
            let input: Vec<u8> = format!("{}\n", q).into_bytes();
            acc.distinct.insert(fnv(&input) ^ fnv(format!("{:?}", leaves).as_bytes()));
            par::case_begin(&input, [shard as u64, 0, 0, 0]);
            let mut outs: Vec<(&'static str, Vec<u8>)> = Vec::new();
            for (wname, wk) in &writers {
                let pend = if rng.chance(1, 3) { rng.next() | 1 } else { 0 };
                let out = drive_run::<RDev>(&RunSpec { inputs: &[&input], writer: *wk, pend_seed: pend });
                if out.crashed() {
                    acc.res.skipped_crash += 1;
                    continue;
                }
                acc.res.evaluations += 1;
                *acc.writers.entry(wname).or_default() += 1;
                *acc.by_type.entry(format!("end-to-end/{}", leaf_kind(&leaves))).or_default() += 1;
                let s = streams(&out.log);
                acc.res.sample(|| J::obj(vec![("query", J::s(*q)), ("writer", J::s(*wname)), ("returned", J::s(format!("{:?}", leaves))), ("output", J::s(esc(&s.out[..s.out.len().min(200)])))]));
                // the whole output is exactly one response
                let r = decode_response(&s.out).and_then(|(toks, used)| {
                    if used != s.out.len() {
                        Err(format!("output continues after the response: \"{}\"", esc(&s.out[used..])))
                    }
                    else {
                        match_leaves(&toks, &leaves)
                    }
                });
                let mut bad: Option<(String, String)> = None;
                if s.errs() > 0 {
                    bad = Some((format!("error-for-a-successful-query/{}", q), format!("{}", s.show().join(" "))));
                }
                else if let Err(e) = r {
                    let clause = if e.contains("decodes to") { "decodes-to-a-different-value" } else { "malformed-response" };
                    bad = Some((format!("{}/{}/{}", clause, leaf_kind(&leaves), if *wname == "pass-through" { "run" } else { wname }), e));
                }
                else if matches!(wk, WriterKind::Rec(_)) {
                    acc.order_checked += 1;
                    if let Err(e) = check_unit_order(&out.log, &rzoo::is_query) {
                        bad = Some(("newline-flush-order".into(), e));
                    }
                }
                if let Some((sig, detail)) = bad {
                    violation(
                        &mut acc,
                        sig,
                        format!("{} via {}: {}", q, wname, detail),
                        vec![("query", J::s(*q)), ("writer", J::s(*wname)), ("output", J::s(esc(&s.out))), ("output_hex", J::s(hex(&s.out[..s.out.len().min(300)]))), ("returned", J::s(format!("{:?}", leaves))), ("log", J::strs(out.log.iter().take(20).map(|e| e.show())))],
                    );
                }
                if *wname == "pass-through" {
                    reference.push((*q, s.out.clone()));
                }
                outs.push((wname, s.out));
            }
            // a heapless writer that has room for exactly this response, not a byte more
            if let Some((_, want)) = outs.first().cloned() {
                if crate::drive::HEAPLESS_CAPS.contains(&want.len()) && !want.is_empty() {
                    let out = drive_run::<RDev>(&RunSpec { inputs: &[&input], writer: WriterKind::Heapless(want.len()), pend_seed: 0 });
                    if !out.crashed() {
                        acc.res.evaluations += 1;
                        acc.exact_fill += 1;
                        let s = streams(&out.log);
                        if s.out != want || s.errs() > 0 {
                            violation(
                                &mut acc,
                                format!("exact-capacity-writer-differs/{}", leaf_kind(&leaves)),
                                format!("{}: heapless::Vec<u8,{}> has room for the {}-byte response \"{}\" but received \"{}\" ({} errors)", q, want.len(), want.len(), esc(&want), esc(&s.out), s.errs()),
                                vec![("query", J::s(*q)), ("capacity", want.len().into()), ("expected", J::s(esc(&want))), ("received", J::s(esc(&s.out))), ("events", J::strs(s.show()))],
                            );
                        }
                    }
                }
            }
            // same bytes for every writer
            for w in outs.windows(2) {
                if w[0].1 != w[1].1 {
                    violation(
                        &mut acc,
                        format!("writers-disagree/{}", leaf_kind(&leaves)),
                        format!("{}: {} wrote \"{}\", {} wrote \"{}\"", q, w[0].0, esc(&w[0].1), w[1].0, esc(&w[1].1)),
                        vec![("query", J::s(*q)), ("a", J::s(esc(&w[0].1))), ("b", J::s(esc(&w[1].1)))],
                    );
                }
            }
            par::case_end();
        }
        // the same queries as a stream of messages through `process` (several messages per read,
        // answers together longer than the response buffer although each one fits): exactly the
        // same responses, in order, reach the adapter
        if reference.len() == queries.len() {
            let mut order: Vec<usize> = (0..reference.len()).collect();
            for i in (1..order.len()).rev() {
                order.swap(i, rng.below(i + 1));
            }
            for (dname, n, max_per, chunked) in [
                ("process/one-read-per-buffer", 256usize, 1usize, false),
                ("process/one-read-per-buffer", 1024, 3, false),
                ("process/random-chunks", 256, 1, true),
            ] {
                // only answers that have room: all answers of one message fit the response buffer
                let order: Vec<usize> = order.iter().copied().filter(|i| reference[*i].1.len() <= n / max_per).collect();
                let mut stream = Vec::new();
                let mut want = Vec::new();
                let mut k = 0;
                while k < order.len() {
                    // one to three queries per message (the answers of one message always fit)
                    let per = rng.range(1, max_per).min(order.len() - k);
                    for j in 0..per {
                        if j > 0 {
                            stream.extend_from_slice(b";:");
                        }
                        stream.extend_from_slice(reference[order[k + j]].0.as_bytes());
                        want.extend_from_slice(&reference[order[k + j]].1);
                    }
                    stream.push(b'\n');
                    if per == 1 && rng.chance(1, 4) {
                        // the same query once more, as the next message
                        stream.extend_from_slice(reference[order[k]].0.as_bytes());
                        stream.push(b'\n');
                        want.extend_from_slice(&reference[order[k]].1);
                    }
                    k += per;
                }
                let chunks = if chunked { super::c05::random_chunks(&mut rng, stream.len()) } else { vec![] };
                let pend = if rng.chance(1, 3) { rng.next() | 1 } else { 0 };
                par::case_begin(&stream, [shard as u64, 1, n as u64, 0]);
                let out = crate::drive::drive_process_small::<RDev>(&crate::drive::ProcSpec { stream: &stream, n, chunks: &chunks, pend_seed: pend, fault_at: None });
                par::case_end();
                if out.crashed() {
                    acc.res.skipped_crash += 1;
                    continue;
                }
                acc.res.evaluations += 1;
                *acc.by_type.entry(format!("end-to-end/{}", dname)).or_default() += 1;
                let s = streams(&out.log);
                if s.out != want || s.errs() > 0 {
                    let at = s.out.iter().zip(&want).position(|(a, b)| a != b).unwrap_or(s.out.len().min(want.len()));
                    violation(
                        &mut acc,
                        format!("process-responses-differ-from-run/{}", if s.errs() > 0 { "error-reported" } else if s.out.len() < want.len() { "response-missing-or-short" } else { "bytes-differ" }),
                        format!("{} queries as {} messages through process::<{}> ({}): adapter received {} bytes, run wrote {} for the same queries; first difference at byte {}; errors: {}", order.len(), stream.iter().filter(|b| **b == b'\n').count(), n, dname, s.out.len(), want.len(), at, s.errs()),
                        vec![("stream", J::s(esc(&stream))), ("stream_hex", J::s(hex(&stream))), ("n", n.into()), ("chunks", J::Arr(chunks.iter().take(64).map(|c| J::Int(*c as i64)).collect())), ("adapter_received", J::s(esc(&s.out))), ("run_wrote", J::s(esc(&want))), ("errors", J::strs(s.show().into_iter().take(6)))],
                    );
                }
            }
        }
        // units that must not produce output
        for input in [&b"C:SET 5\n"[..], b"C:NOP\n", b"R:FAIL?\n", b"R:ARG? 999\n", b"R:ARG? 'x'\n", b"R:ARG?\n", b"R:NOPE?\n", b"C:SET? 1\n", b"R:U8\n", b"C:NOP;R:FAIL?;C:SET 1\n"] {
            for (wname, wk) in &writers {
                let out = drive_run::<RDev>(&RunSpec { inputs: &[input], writer: *wk, pend_seed: 0 });
                if out.crashed() {
                    acc.res.skipped_crash += 1;
                    continue;
                }
                acc.res.evaluations += 1;
                acc.no_output_cases += 1;
                let s = streams(&out.log);
                // (a flush that moves no byte is not output: only bytes are judged)
                let flushed = out.log.iter().any(|e| matches!(e, Ev::Flush));
                if !s.out.is_empty() {
                    violation(
                        &mut acc,
                        "output-without-a-successful-query".into(),
                        format!("\"{}\" via {} produced output \"{}\" (flush: {})", esc(input), wname, esc(&s.out), flushed),
                        vec![("input", J::s(esc(input))), ("writer", J::s(*wname)), ("output", J::s(esc(&s.out)))],
                    );
                }
            }
        }
        // a query with an argument echoes it (response after a parameter list)
        let out = drive_run::<RDev>(&RunSpec { inputs: &[b"R:ARG? 200;:R:UNIT?;:R:ARG? #HFF\n"], writer: WriterKind::Rec(None), pend_seed: 9 });
        if !out.crashed() {
            acc.res.evaluations += 1;
            let s = streams(&out.log);
            if s.out != b"200\n\n255\n" || check_unit_order(&out.log, &rzoo::is_query).is_err() {
                violation(&mut acc, "compound-responses".into(), format!("three queries in one message gave \"{}\"", esc(&s.out)), vec![("output", J::s(esc(&s.out)))]);
            }
        }
    }
    acc
}

fn direct_shard(ctx: &Ctx, shard: usize, shards: usize) -> Acc {
    let mut acc = Acc::default();
    let mut rng = Rng::fork(ctx.seed, 0xC04_5000 + shard as u64);
    // f32: stratified over all 256 exponents x both signs x mantissa patterns (quick) or all bit patterns (thorough)
    if ctx.thorough {
        let per = (1u64 << 32) / shards as u64;
        let lo = per * shard as u64;
        let hi = if shard + 1 == shards { 1u64 << 32 } else { lo + per };
        let mut b = lo;
        while b < hi {
            f32_direct(&mut acc, b as u32, b % 65521 == 0);
            b += 1;
        }
    }
    else {
        for exp in 0..256u32 {
            if exp as usize % shards != shard {
                continue;
            }
            for sign in 0..2u32 {
                for k in 0..1024u32 {
                    let mant = match k {
                        0 => 0,
                        1 => 1,
                        2 => 0x7fffff,
                        3 => 0x400000,
                        4 => 0x3fffff,
                        _ => (rng.next() as u32) & 0x7fffff,
                    };
                    f32_direct(&mut acc, (sign << 31) | (exp << 23) | mant, k % 16 == 0);
                }
            }
        }
    }
    // f64: exponent sweep x mantissa patterns + random
    for exp in 0..2048u64 {
        if exp as usize % shards != shard {
            continue;
        }
        for sign in 0..2u64 {
            for k in 0..(if ctx.thorough { 256 } else { 24 }) {
                let mant = match k {
                    0 => 0,
                    1 => 1,
                    2 => (1u64 << 52) - 1,
                    3 => 1u64 << 51,
                    _ => rng.next() & ((1u64 << 52) - 1),
                };
                f64_direct(&mut acc, (sign << 63) | (exp << 52) | mant, k % 8 == 0);
            }
        }
    }
    for i in 0..ctx.scaled(if ctx.thorough { 600_000 } else { 20_000 }) {
        f64_direct(&mut acc, rng.next(), i % 64 == 0);
        // an f32 reading widened to f64 (its shortest f32 digits do not denote the same f64)
        let w = f32::from_bits(rng.next() as u32) as f64;
        f64_direct(&mut acc, w.to_bits(), i % 64 == 1);
    }
    if shard == 0 {
        // powers of ten and their neighbours (digit-count boundaries of the formatter)
        for k in -320i32..=308 {
            let x: f64 = format!("1e{}", k).parse().unwrap();
            for b in [x.to_bits().wrapping_sub(1), x.to_bits(), x.to_bits() + 1] {
                f64_direct(&mut acc, b, k % 16 == 0);
                f64_direct(&mut acc, b | (1u64 << 63), false);
            }
            if (-45..=38).contains(&k) {
                let y: f32 = format!("1e{}", k).parse().unwrap();
                for b in [y.to_bits().wrapping_sub(1), y.to_bits(), y.to_bits() + 1] {
                    f32_direct(&mut acc, b, k % 8 == 0);
                    f32_direct(&mut acc, b | (1u32 << 31), false);
                }
            }
        }
    }
    for w in [0.1f32, 0.2, 0.3, 1.1, 3.3, 1e10, 1e-10, 16777217.0, 1.0e38] {
        f64_direct(&mut acc, (w as f64).to_bits(), true);
        f64_direct(&mut acc, (-(w as f64)).to_bits(), true);
    }
    // integers: 8 and 16 bit exhaustively (split over shards), wider at boundaries + random
    for v in 0..=u16::MAX {
        if v as usize % shards != shard {
            continue;
        }
        direct(&mut acc, "u16", || v.to_string(), &v, &[Leaf::Int(v as i128)]);
        let s = v as i16;
        direct(&mut acc, "i16", || s.to_string(), &s, &[Leaf::Int(s as i128)]);
        if v <= 255 {
            let a = v as u8;
            direct(&mut acc, "u8", || a.to_string(), &a, &[Leaf::Int(a as i128)]);
            let b = v as u8 as i8;
            direct(&mut acc, "i8", || b.to_string(), &b, &[Leaf::Int(b as i128)]);
        }
    }
    macro_rules! wide {
        ($t:ty, $name:expr) => {
            for k in 0..400u32 {
                let v: $t = match k {
                    0 => <$t>::MIN,
                    1 => <$t>::MAX,
                    2 => 0 as $t,
                    3 => <$t>::MIN + 1,
                    4 => <$t>::MAX - 1,
                    5 => 1 as $t,
                    _ => {
                        let bits = rng.below(64) as u32;
                        ((rng.next() >> (63 - bits.min(63))) as $t)
                    }
                };
                direct(&mut acc, $name, || v.to_string(), &v, &[Leaf::Int(v as i128)]);
            }
        };
    }
    wide!(u32, "u32");
    wide!(i32, "i32");
    wide!(u64, "u64");
    wide!(i64, "i64");
    wide!(usize, "usize");
    wide!(isize, "isize");
    direct(&mut acc, "bool", || "true".into(), &true, &[Leaf::Bool(true)]);
    direct(&mut acc, "bool", || "false".into(), &false, &[Leaf::Bool(false)]);
    // strings
    for _ in 0..ctx.scaled(if ctx.thorough { 40_000 } else { 3_000 }) {
        let s = rand_string(&mut rng, 12);
        if s.contains('"') {
            acc.quotes_in_strings += 1;
        }
        let sr: &str = &s;
        direct(&mut acc, "&str", || format!("{:?}", s), &sr, &[Leaf::Str(s.as_bytes().to_vec())]);
        let mut hs: heapless::String<64> = heapless::String::new();
        for c in s.chars() {
            if hs.push(c).is_err() {
                break;
            }
        }
        direct(&mut acc, "heapless::String", || format!("{:?}", hs.as_str()), &hs, &[Leaf::Str(hs.as_bytes().to_vec())]);
        #[cfg(feature = "std")]
        {
            let owned = s.clone();
            direct(&mut acc, "String", || format!("{:?}", owned), &owned, &[Leaf::Str(s.as_bytes().to_vec())]);
        }
        // tuples and lists containing the string
        let t = (rng.next() as i16, sr, rng.chance(1, 2));
        direct(&mut acc, "tuple3", || format!("{:?}", t), &t, &[Leaf::Int(t.0 as i128), Leaf::Str(s.as_bytes().to_vec()), Leaf::Bool(t.2)]);
        let l: Vec<&str> = vec![sr, "", sr];
        let ls: &[&str] = &l;
        direct(&mut acc, "slice-of-str", || format!("{:?}", l), &ls, &[Leaf::Str(s.as_bytes().to_vec()), Leaf::Str(vec![]), Leaf::Str(s.as_bytes().to_vec())]);
    }
    if shard == 0 {
        exact_fill_direct(&mut acc);
    }
    // blocks: every length 0..=300 and around the powers of ten (pass-through and std writers only
    // for the large ones; the heapless writer used by `direct` holds 1024 bytes)
    if shard == 0 {
        for len in (0..=1100usize).chain([4095, 4096, 4097, 65535, 65536, 65537]) {
            let payload: Vec<u8> = (0..len).map(|i| (i * 7 + len) as u8).collect();
            acc.max_block = acc.max_block.max(len);
            if len <= 1000 - 8 {
                direct(&mut acc, "block", || format!("{} bytes", len), &Arbitrary(&payload), &[Leaf::Blk(payload.clone())]);
            }
            big_block(&mut acc, &payload);
        }
        for len in [9_999usize, 10_000, 10_001, 99_999, 100_000, 100_001, 999_999, 1_000_000] {
            let payload: Vec<u8> = (0..len).map(|i| (i ^ (i >> 8)) as u8).collect();
            acc.max_block = acc.max_block.max(len);
            big_block(&mut acc, &payload);
        }
        for b in 0..=255u8 {
            let payload = vec![b, b'\n', b];
            direct(&mut acc, "block", || format!("byte 0x{:02x}", b), &Arbitrary(&payload), &[Leaf::Blk(payload.clone())]);
        }
    }
    acc
}

/// The library's `Write` for `heapless::Vec<u8, N>`: text that fits exactly is taken completely,
/// byte for byte, whichever of the trait's methods delivers the last piece.
fn exact_fill_direct(acc: &mut Acc) {
    use microscpi::Write as W;
    macro_rules! one {
        ($($n:literal),*) => {$(
            {
                for last in 0..3usize {
                    let mut v: heapless::Vec<u8, $n> = heapless::Vec::new();
                    // N-1 bytes first, then the last piece (the newline that ends every response;
                    // the library itself only ever passes ASCII to write_char)
                    let tail: &str = "\n";
                    if tail.len() > $n {
                        continue;
                    }
                    let head: String = "x".repeat($n - tail.len());
                    let r0 = block_on(W::write_str(&mut v, &head), 1000);
                    let r1 = match last {
                        0 => block_on(W::write_char(&mut v, tail.chars().next().unwrap()), 1000),
                        1 => block_on(W::write_str(&mut v, tail), 1000),
                        _ => block_on(W::write_bytes(&mut v, tail.as_bytes()), 1000),
                    };
                    acc.res.evaluations += 1;
                    acc.exact_fill += 1;
                    let want = format!("{}{}", head, tail);
                    if !matches!(r0, Ok(Ok(()))) || !matches!(r1, Ok(Ok(()))) || &v[..] != want.as_bytes() {
                        violation(
                            acc,
                            "exact-capacity-writer-differs/direct".into(),
                            format!("heapless::Vec<u8,{}>: {} bytes written, then the last {} byte(s) by method {} -> {:?}, buffer holds {} bytes", $n, head.len(), tail.len(), ["write_char", "write_str", "write_bytes"][last], r1, v.len()),
                            vec![("capacity", ($n as usize).into()), ("method", last.into())],
                        );
                    }
                }
            }
        )*};
    }
    one!(1, 2, 3, 4, 5, 6, 7, 8, 9, 10, 11, 12, 13, 15, 16, 17, 24, 31, 32, 33, 63, 64, 65, 100, 127, 128, 255, 256, 257, 1000);
}

fn big_block(acc: &mut Acc, payload: &[u8]) {
    acc.res.evaluations += 1;
    acc.distinct_direct += 1;
    let _ = crate::ev::take();
    let mut rw = RecWriter::new(None);
    let r = block_on(Arbitrary(payload).write_response(&mut rw), 1000);
    let mut rb: Vec<u8> = Vec::new();
    for e in crate::ev::take() {
        if let Ev::Write(b) = e {
            rb.extend_from_slice(&b);
        }
    }
    if !matches!(r, Ok(Ok(()))) {
        violation(acc, "write-failed/block".into(), format!("block of {} bytes: {:?}", payload.len(), r), vec![("len", payload.len().into())]);
        return;
    }
    judge_bytes(acc, "block", &format!("{} bytes", payload.len()), &rb, &[Leaf::Blk(payload.to_vec())]);
}

fn canary() -> Result<(), String> {
    let mut acc = Acc::default();
    // a string answer with an undoubled quote must be rejected
    if judge_bytes(&mut acc, "&str", "a\"b", b"\"a\"b\"", &[Leaf::Str(b"a\"b".to_vec())]) {
        return Err("C04 canary: undoubled quote accepted".into());
    }
    // wrong value
    if judge_bytes(&mut acc, "u8", "5", b"6", &[Leaf::Int(5)]) {
        return Err("C04 canary: wrong integer accepted".into());
    }
    // wrong NaN sentinel
    if judge_bytes(&mut acc, "f32", "nan", b"9.9E+37", &[Leaf::F32(f32::NAN.to_bits())]) {
        return Err("C04 canary: wrong NaN sentinel accepted".into());
    }
    // one ulp off
    if judge_bytes(&mut acc, "f32", "0.1", b"0.10000001", &[Leaf::F32(0.1f32.to_bits())]) {
        return Err("C04 canary: value one ulp off accepted".into());
    }
    if !judge_bytes(&mut acc, "&str", "a\"b", b"\"a\"\"b\"", &[Leaf::Str(b"a\"b".to_vec())]) {
        return Err("C04 canary: correct quoting rejected".into());
    }
    Ok(())
}

pub fn run(ctx: &Ctx) -> PropResult {
    let mut res = PropResult::default();
    if let Err(e) = canary() {
        res.inconclusive = Some(e);
        return res;
    }
    let e2e_shards = 32usize;
    let direct_shards = 64usize;
    let scripts = ctx.scaled(if ctx.thorough { 6_000 } else { 400 });
    let accs = par::run_shards(
        e2e_shards + direct_shards,
        ctx.threads,
        |i| if i < e2e_shards { e2e_shard(ctx, i, scripts) } else { direct_shard(ctx, i - e2e_shards, direct_shards) },
        |h| ctx.on_hang(h),
    );
    let mut distinct = 0u64;
    let mut by_type: BTreeMap<String, u64> = BTreeMap::new();
    let mut writers: BTreeMap<&'static str, u64> = BTreeMap::new();
    let (mut noout, mut ord, mut f32n, mut f64n, mut ni, mut qs, mut mb) = (0, 0, 0, 0, 0, 0, 0);
    let mut exact = 0u64;
    let mut floatlog: Vec<String> = Vec::new();
    for acc in accs {
        distinct += acc.distinct.len() as u64 + acc.f32_direct + acc.f64_direct + acc.distinct_direct;
        for (k, v) in acc.by_type {
            *by_type.entry(k).or_default() += v;
        }
        for (k, v) in acc.writers {
            *writers.entry(k).or_default() += v;
        }
        noout += acc.no_output_cases;
        exact += acc.exact_fill;
        ord += acc.order_checked;
        f32n += acc.f32_direct;
        f64n += acc.f64_direct;
        ni += acc.nan_inf;
        qs += acc.quotes_in_strings;
        mb = mb.max(acc.max_block);
        if floatlog.len() < 400_000 {
            floatlog.extend(acc.floatlog);
        }
        res.merge(acc.res);
    }
    // event log of float responses for the exact-rational offline checker
    let flog_path = format!("{}.floatlog", ctx.out_path);
    if let Ok(mut f) = std::fs::File::create(&flog_path) {
        for l in &floatlog {
            let _ = writeln!(f, "{}", l);
        }
    }
    res.distinct = distinct;
    res.rule = format!(
        "end-to-end: {} random scripts x 27 value-returning queries of the response zoo (all integer widths, f32, f64, bool, &str, heapless::String, Characters, Arbitrary, Error, 2/3/4-tuples, nested tuples, slices, heapless::Vec) through the generated dispatcher and run into {} writers, plus units that must stay silent; direct: Response::write_response for 8/16-bit integers exhaustively, wide integers at bounds + random, f32 {} , f64 exponent sweep + random, strings over UTF-8 incl. quotes/newlines, blocks of every length 0..=300 and around 10^k up to 10^6 with all byte values. distinct = distinct (type, value) cases",
        scripts * e2e_shards as u64,
        e2e_writers().len(),
        if ctx.thorough { "ALL 2^32 bit patterns" } else { "stratified: 256 exponents x 2 signs x 1024 mantissas" }
    );
    res.cov("f32_values", f32n);
    res.cov("f32_exhaustive", ctx.thorough);
    res.cov("f64_values", f64n);
    res.cov("nan_or_infinite_values", ni);
    res.cov("strings_containing_a_double_quote", qs);
    res.cov("largest_block_bytes", mb);
    res.cov("silent_unit_executions", noout);
    res.cov("responses_into_a_writer_with_exactly_enough_room", exact);
    res.cov("run_logs_checked_for_newline_and_flush", ord);
    res.cov("float_responses_logged_for_exact_check", floatlog.len());
    res.cov("std_writer_included", cfg!(feature = "std"));
    res.cov("executions_by_type", J::Obj(by_type.into_iter().map(|(k, v)| (k, J::Int(v as i64))).collect()));
    res.cov("end_to_end_by_writer", J::Obj(writers.into_iter().map(|(k, v)| (k.to_string(), J::Int(v as i64))).collect()));
    res.samples.truncate(5);
    let described: Vec<J> = vec![J::s("R:T4? returning (-128, 65535, \"x\\\"y\", NaN) -> -128,65535,\"x\"\"y\",9.91E+37\\n + flush"), J::s("f32 0x00000001 -> 0.000000000000000000000000000000000000000000001")];
    res.samples.extend(described.into_iter().take(1));
    res.assumptions = vec![
        "finite floats are compared bit-exactly after parsing the response text with core's str::parse (independent of the Display algorithm the library uses); a sample is re-checked with exact rationals offline".into(),
    ];
    if qs == 0 || ni == 0 || ord == 0 {
        res.inconclusive = Some("value coverage floor not reached".into());
    }
    res
}
