//! C11 — lexical variations allowed by IEEE 488.2 do not change the meaning.
//!
//! Metamorphic oracle between two real executions: a message in canonical
//! style (upper case, forms as generated, single blank after the header,
//! LF) and a lexical variant of the same AST must produce identical handler
//! calls with arguments, response bytes and errors.

use std::collections::{BTreeMap, HashSet};

use super::{hex, Ctx};
use crate::drive::{IfaceDesc, RunSpec, WriterKind};
use crate::ev::esc;
use crate::out::{PropResult, Violation, J};
use crate::par;
use crate::prng::{fnv, Rng};
use crate::sem::{streams, Streams};
use crate::wl::{Fault, Gen, GenOpts, LitOpts, MsgAst, Style};

pub const WS_BYTES: [u8; 32] = [
    0, 1, 2, 3, 4, 5, 6, 7, 8, 9, 11, 12, 13, 14, 15, 16, 17, 18, 19, 20, 21, 22, 23, 24, 25, 26, 27, 28, 29, 30, 31, 32,
];

const POSITIONS: [&str; 5] = ["unit-start", "after-header", "before-comma", "after-comma", "before-end"];
const EXEC_FAULTS: [Fault; 8] =
    [Fault::WrongKind, Fault::TooFew, Fault::TooMany, Fault::WrongType, Fault::OutOfRange, Fault::NotBool, Fault::Handler, Fault::InnerNode];

#[derive(Default)]
struct Acc {
    res: PropResult,
    distinct: HashSet<u64>,
    by_variation: BTreeMap<String, u64>,
    ws_cells: HashSet<(u8, usize)>,
    msgs: u64,
    faulty_msgs: u64,
    calls: u64,
    errs: u64,
}

fn set_ws(st: &mut Style, pos: usize, ws: Vec<u8>) {
    match pos {
        0 => st.ws_unit_start = ws,
        1 => st.ws_after_header = ws,
        2 => st.ws_before_comma = ws,
        3 => st.ws_after_comma = ws,
        _ => st.ws_before_end = ws,
    }
}

fn exec(iface: &IfaceDesc, bytes: &[u8]) -> Option<Streams> {
    let out = (iface.run)(&RunSpec { inputs: &[bytes], writer: WriterKind::Rec(None), pend_seed: 0 });
    if out.crashed() {
        None
    }
    else {
        Some(streams(&out.log))
    }
}

fn compare(acc: &mut Acc, iface: &IfaceDesc, variation: &str, sigkey: &str, canon: &[u8], reference: &Streams, variant: &[u8]) {
    if variant == canon {
        return;
    }
    acc.distinct.insert(fnv(variant) ^ fnv(iface.name.as_bytes()));
    *acc.by_variation.entry(variation.to_string()).or_default() += 1;
    par::case_begin(variant, [0, 0, 0, 0]);
    let got = exec(iface, variant);
    par::case_end();
    let got = match got {
        Some(g) => g,
        None => {
            acc.res.skipped_crash += 1;
            return;
        }
    };
    acc.res.evaluations += 1;
    acc.res.sample(|| J::obj(vec![("iface", J::s(iface.name)), ("canonical", J::s(esc(canon))), ("variant", J::s(esc(variant))), ("variation", J::s(variation)), ("outcome", J::strs(got.show()))]));
    // a quarter of the variants also as a byte stream through `process`, with a read boundary
    // behind every white-space byte (the variation must not matter there either)
    if &got == reference && variant.len() <= 900 && (fnv(variant) >> 5) % 4 == 0 {
        let mut chunks: Vec<usize> = Vec::new();
        let mut last = 0usize;
        for (i, b) in variant.iter().enumerate() {
            if *b <= 32 && *b != b'\n' {
                chunks.push(i + 1 - last);
                last = i + 1;
            }
        }
        chunks.push(variant.len() - last);
        par::case_begin(variant, [1, 0, 0, 0]);
        let n = (iface.ns)().into_iter().max().unwrap_or(1024);
        // the message and all its responses must have room in process' buffers
        if n < variant.len() + 64 || n < reference.out.len() + 64 {
            return;
        }
        let out = (iface.process)(&crate::drive::ProcSpec { stream: variant, n, chunks: &chunks, pend_seed: 0, fault_at: None });
        par::case_end();
        if out.crashed() {
            acc.res.skipped_crash += 1;
            return;
        }
        acc.res.evaluations += 1;
        *acc.by_variation.entry(format!("{} (through process, reads ending behind white space)", variation)).or_default() += 1;
        let gp = streams(&out.log);
        if &gp != reference {
            acc.res.add_violation(Violation {
                sig: format!("variant-differs-through-process/{}", sigkey),
                summary: format!("\"{}\" and its variant \"{}\" ({}) read through process with a read boundary behind every white-space byte have different outcomes", esc(canon), esc(variant), variation),
                witness: J::obj(vec![
                    ("iface", J::s(iface.name)),
                    ("decls", J::strs(iface.decls.iter().map(|x| x.cmd.to_string()))),
                    ("canonical", J::s(esc(canon))),
                    ("variant", J::s(esc(variant))),
                    ("variant_hex", J::s(hex(variant))),
                    ("n", n.into()),
                    ("chunks", J::Arr(chunks.iter().take(64).map(|c| J::Int(*c as i64)).collect())),
                    ("canonical_outcome", J::strs(reference.show())),
                    ("variant_outcome", J::strs(gp.show())),
                ]),
            });
        }
        return;
    }
    if &got != reference {
        acc.res.add_violation(Violation {
            sig: format!("variant-differs/{}", sigkey),
            summary: format!("\"{}\" and its variant \"{}\" ({}) have different outcomes", esc(canon), esc(variant), variation),
            witness: J::obj(vec![
                ("iface", J::s(iface.name)),
                ("decls", J::strs(iface.decls.iter().map(|x| x.cmd.to_string()))),
                ("canonical", J::s(esc(canon))),
                ("canonical_hex", J::s(hex(canon))),
                ("variant", J::s(esc(variant))),
                ("variant_hex", J::s(hex(variant))),
                ("variation", J::s(variation)),
                ("canonical_outcome", J::strs(reference.show())),
                ("variant_outcome", J::strs(got.show())),
            ]),
        });
    }
}

fn gen_msg(gen: &Gen, rng: &mut Rng, acc: &mut Acc) -> MsgAst {
    acc.msgs += 1;
    if rng.chance(1, 4) {
        let f = *rng.pick(&EXEC_FAULTS);
        if let Some(m) = gen.faulty_msg(f, rng.below(3) as u8, rng) {
            acc.faulty_msgs += 1;
            return m;
        }
    }
    gen.valid_msg(rng)
}

fn shard(ctx: &Ctx, ifaces: &[&'static IfaceDesc], shard: usize, msgs: u64, exhaustive_ws: bool) -> Acc {
    let mut acc = Acc::default();
    let mut rng = Rng::fork(ctx.seed, 0xC11_0000 + shard as u64);
    for _ in 0..msgs {
        let iface = *rng.pick(ifaces);
        let gen = Gen::new(
            iface,
            GenOpts { lit: LitOpts { payload_newline: false, wild_payload: true, max_payload: 6 }, max_units: 3, trailing_semicolon_16: 0, ..Default::default() },
        );
        let ast = gen_msg(&gen, &mut rng, &mut acc);
        let canon_style = Style::plain();
        let canon = ast.render(&canon_style);
        let reference = match exec(iface, &canon) {
            Some(r) => r,
            None => {
                acc.res.skipped_crash += 1;
                continue;
            }
        };
        acc.calls += reference.calls() as u64;
        acc.errs += reference.errs() as u64;
        if exhaustive_ws {
            // every white-space byte at every position class, individually
            for (pi, pname) in POSITIONS.iter().enumerate() {
                for b in WS_BYTES {
                    let mut st = Style::plain();
                    set_ws(&mut st, pi, vec![b]);
                    let v = ast.render(&st);
                    if v != canon {
                        acc.ws_cells.insert((b, pi));
                    }
                    compare(&mut acc, iface, &format!("ws 0x{:02x} at {}", b, pname), &format!("white-space/{}", pname), &canon, &reference, &v);
                }
            }
            // runs of one byte, of several lengths (2..=9, 16, 17, 64)
            for (pi, pname) in POSITIONS.iter().enumerate() {
                for b in [b' ', b'\t', 0u8, 0x0bu8, b'\r'] {
                    for k in [2usize, 3, 4, 5, 6, 7, 8, 9, 12, 16, 17, 64] {
                        let mut st = Style::plain();
                        set_ws(&mut st, pi, vec![b; k]);
                        let v = ast.render(&st);
                        compare(&mut acc, iface, &format!("run of {} x 0x{:02x} at {}", k, b, pname), &format!("white-space-run/{}", pname), &canon, &reference, &v);
                    }
                }
            }
            // CR LF
            let mut st = Style::plain();
            st.crlf = true;
            compare(&mut acc, iface, "CR LF terminator", "crlf", &canon, &reference, &ast.render(&st));
            // case
            for case in [1u8, 2, 2] {
                let mut st = Style::plain();
                st.case = case;
                st.seed = rng.next();
                compare(&mut acc, iface, if case == 1 { "lower case" } else { "mixed case" }, "case", &canon, &reference, &ast.render(&st));
            }
            // short <-> long
            for _ in 0..3 {
                let mut st = Style::plain();
                st.flip_form = 4;
                st.seed = rng.next();
                compare(&mut acc, iface, "short/long exchanged", "short-long", &canon, &reference, &ast.render(&st));
            }
        }
        // random combinations of all classes
        for _ in 0..(if exhaustive_ws { 8 } else { 24 }) {
            let mut st = Style::plain();
            st.seed = rng.next();
            st.case = rng.below(3) as u8;
            st.flip_form = *rng.pick(&[0u8, 2, 4, 8]);
            st.crlf = rng.chance(1, 3);
            for pi in 0..5 {
                if rng.chance(1, 2) {
                    let n = if rng.chance(1, 5) { rng.range(4, 9) } else { rng.range(1, 3) };
                    set_ws(&mut st, pi, (0..n).map(|_| *rng.pick(&WS_BYTES)).collect());
                }
            }
            compare(&mut acc, iface, "combined", "combined", &canon, &reference, &ast.render(&st));
        }
    }
    acc
}

fn canary() -> Result<(), String> {
    // the renderer must really produce variants, and they must differ from the canonical text
    let a = Style::plain();
    let mut b = Style::plain();
    b.ws_before_end = vec![0x0b];
    if a.ws_before_end == b.ws_before_end {
        return Err("C11 canary".into());
    }
    if !WS_BYTES.contains(&0) || !WS_BYTES.contains(&9) || WS_BYTES.contains(&10) || !WS_BYTES.contains(&32) || WS_BYTES.contains(&33) {
        return Err("C11 canary: white-space class wrong".into());
    }
    Ok(())
}

pub fn run(ctx: &Ctx) -> PropResult {
    let mut res = PropResult::default();
    if let Err(e) = canary() {
        res.inconclusive = Some(e);
        return res;
    }
    let mut all: Vec<&'static IfaceDesc> = ctx.built(&["mini", "pzoo"]);
    all.extend(ctx.random_ifaces());
    let shards = 64usize;
    let ex_msgs = ctx.scaled(if ctx.thorough { 300 } else { 20 });
    let rnd_msgs = ctx.scaled(if ctx.thorough { 15_000 } else { 1_000 });
    let accs = par::run_shards(
        shards * 2,
        ctx.threads,
        |i| if i < shards { shard(ctx, &all, i, ex_msgs, true) } else { shard(ctx, &all, i, rnd_msgs, false) },
        |h| ctx.on_hang(h),
    );
    let mut distinct = HashSet::new();
    let mut by_var: BTreeMap<String, u64> = BTreeMap::new();
    let mut cells = HashSet::new();
    let (mut msgs, mut faulty, mut calls, mut errs) = (0, 0, 0, 0);
    for acc in accs {
        distinct.extend(acc.distinct);
        cells.extend(acc.ws_cells);
        for (k, v) in acc.by_variation {
            let key = if k.starts_with("ws 0x") {
                "single white-space byte".to_string()
            }
            else if k.starts_with("run of ") {
                "run of one white-space byte (2..64 long)".to_string()
            }
            else {
                k
            };
            *by_var.entry(key).or_default() += v;
        }
        msgs += acc.msgs;
        faulty += acc.faulty_msgs;
        calls += acc.calls;
        errs += acc.errs;
        res.merge(acc.res);
    }
    res.distinct = distinct.len() as u64;
    res.rule = format!(
        "{} messages (valid, and with execute-level faults) over {} interfaces; for a subset every one of the 32 white-space bytes individually at each of 5 position classes (unit start incl. after ';', header/parameters, before ',', after ',', before ';' or terminator), CR LF, lower/mixed case of mnemonics, short<->long exchange; for all messages random combinations of all classes with runs of 1..3 white-space bytes. distinct = distinct variant byte strings executed",
        msgs,
        all.len()
    );
    res.cov("messages", msgs);
    res.cov("messages_with_execute_level_fault", faulty);
    res.cov("ws_byte_x_position_cells_exercised", cells.len());
    res.cov("ws_byte_x_position_cells_total", 159usize);
    res.cov("variants_by_kind", J::Obj(by_var.into_iter().map(|(k, v)| (k, J::Int(v as i64))).collect()));
    res.cov("handler_calls_in_canonical_runs", calls);
    res.cov("errors_in_canonical_runs", errs);
    res.samples.truncate(5);
    let described: Vec<J> = vec![J::s("\"A:B 5;C?\\n\" vs \"\\x0ba:b\\x005\\x1f;\\x01c?\\r\\n\"")];
    res.samples.extend(described.into_iter().take(1));
    res.assumptions =
        vec!["only header mnemonics are re-cased / exchanged; character data such as ON is data, not a mnemonic".into()];
    // (blank, after-header) is the canonical rendering itself, so 159 cells differ from it
    if cells.len() < 159 || calls == 0 || errs == 0 {
        res.inconclusive = Some(format!("coverage floor not reached: {} of 159 white-space cells", cells.len()));
    }
    res
}
