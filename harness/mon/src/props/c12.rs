//! C12 — parser verdicts are final and depend only on the consumed bytes.
//!
//! Oracle over pairs of real `parser::parse` results (x, x·y):
//!  (a) parse(x) = Ok(rem, call)  =>  parse(x·y) = Ok(rem·y, same call);
//!  (b) an Ok consumes at least one byte;
//!  (c) parse(x) = Err(other than Incomplete) and x ends in '\n'  =>  parse(x·y) is not Ok;
//!  (d) parse(x) = Incomplete  =>  x does not end in a newline that lies outside every payload
//!      (judged for x without quote and '#', where no payload can exist).
//! The enumeration is a DFS over all strings up to length L over the class
//! alphabet that keeps the verdicts of all prefixes on its stack, so every pair
//! (x, y) with |x·y| <= L is judged.

use std::collections::HashSet;

use super::c05::ALPHABET;
use super::{hex, Ctx};
use crate::drive::IfaceDesc;
use crate::ev::esc;
use crate::out::{PropResult, Violation, J};
use crate::par;
use crate::prng::{fnv, fnv_add, Rng};
use crate::wl::{Gen, GenOpts, LitOpts, Style};
use microscpi::parser::{parse, ParseError};
use microscpi::{Node, Value};

#[derive(Clone, Copy, Debug, PartialEq)]
pub enum V {
    /// consumed bytes, digest of the call (0 = no call)
    Ok(usize, u64),
    Incomplete,
    Err(i16),
}

fn value_digest(h: u64, v: &Value) -> u64 {
    match v {
        Value::String(s) => fnv_add(fnv_add(h, b"S"), s.as_bytes()),
        Value::Characters(s) => fnv_add(fnv_add(h, b"C"), s.as_bytes()),
        Value::Decimal(s) => fnv_add(fnv_add(h, b"D"), s.as_bytes()),
        Value::Hexadecimal(s) => fnv_add(fnv_add(h, b"H"), s.as_bytes()),
        Value::Binary(s) => fnv_add(fnv_add(h, b"B"), s.as_bytes()),
        Value::Octal(s) => fnv_add(fnv_add(h, b"O"), s.as_bytes()),
        Value::Arbitrary(s) => fnv_add(fnv_add(h, b"A"), s),
        // a kind of value this harness does not know (a library with more kinds must still build)
        #[allow(unreachable_patterns)]
        other => fnv_add(fnv_add(h, b"?"), format!("{:?}", other).as_bytes()),
    }
}

pub fn verdict(root: &'static Node, start: &'static Node, input: &[u8]) -> V {
    match parse(root, start, input) {
        Ok((rem, call)) => {
            let consumed = input.len() - rem.len();
            let d = match call {
                None => 0,
                Some(c) => {
                    let mut h = fnv(b"call");
                    h = fnv_add(h, &(c.node as *const Node as usize).to_le_bytes());
                    h = fnv_add(h, &(c.header.map(|n| n as *const Node as usize).unwrap_or(0)).to_le_bytes());
                    h = fnv_add(h, &[c.query as u8, c.terminated as u8, c.args.len() as u8]);
                    for a in c.args.iter() {
                        h = value_digest(h, a);
                    }
                    h | 1
                }
            };
            V::Ok(consumed, d)
        }
        Err(ParseError::Incomplete) => V::Incomplete,
        Err(e) => {
            let e: microscpi::Error = e.into();
            V::Err(e.number())
        }
    }
}

#[derive(Default)]
struct Acc {
    res: PropResult,
    strings: u64,
    pairs: u64,
    ok: u64,
    incomplete: u64,
    err: u64,
    ok_with_call: u64,
    final_err_prefixes: u64,
    terminated_plain: u64,
    distinct: HashSet<u64>,
}

/// Is the last byte of `s` a newline that lies outside every string and block payload?
/// (A scanner for payload syntax only: quotes, and `#<d><d digits><payload>`.)  Conservative:
/// answers false whenever the structure is not plainly that of closed payloads.
pub fn ends_in_plain_terminator(s: &[u8]) -> bool {
    if s.last() != Some(&b'\n') {
        return false;
    }
    let mut i = 0usize;
    // did the scan take the final byte as a plain byte (not as part of a payload)?
    let mut last_plain = false;
    while i < s.len() {
        last_plain = false;
        match s[i] {
            q @ (b'"' | b'\'') => {
                // find the closing quote
                match s[i + 1..].iter().position(|c| *c == q) {
                    Some(p) => i += p + 2,
                    None => return false,
                }
            }
            b'#' => {
                if i + 1 < s.len() && (b'1'..=b'9').contains(&s[i + 1]) {
                    let w = (s[i + 1] - b'0') as usize;
                    if i + 2 + w > s.len() {
                        return false;
                    }
                    let digits = &s[i + 2..i + 2 + w];
                    if digits.iter().all(|c| c.is_ascii_digit()) {
                        let len: usize = std::str::from_utf8(digits).unwrap().parse().unwrap_or(usize::MAX);
                        if len > s.len() || i + 2 + w + len > s.len() {
                            return false;
                        }
                        i += 2 + w + len;
                        continue;
                    }
                    // a block header with non-digits in its length field: not plainly closed
                    return false;
                }
                i += 1;
                last_plain = i == s.len();
            }
            _ => {
                i += 1;
                last_plain = i == s.len();
            }
        }
    }
    last_plain
}

fn report(acc: &mut Acc, clause: &str, x: &[u8], xy: &[u8], vx: V, vxy: V, start_name: &str, iface: &str) {
    // discriminating feature: what kind of data the input ends in
    let feature = if x.contains(&b'"') || x.contains(&b'\'') {
        "quoted-string"
    }
    else if x.contains(&b'#') {
        "hash-data"
    }
    else {
        "other"
    };
    acc.res.add_violation(Violation {
        sig: format!("{}/{}", clause, feature),
        summary: format!(
            "parse(\"{}\") = {:?} but parse(\"{}\") = {:?} (start node {})",
            esc(x),
            vx,
            esc(xy),
            vxy,
            start_name
        ),
        witness: J::obj(vec![
            ("iface", J::s(iface)),
            ("start_node", J::s(start_name)),
            ("x", J::s(esc(x))),
            ("x_hex", J::s(hex(x))),
            ("xy", J::s(esc(xy))),
            ("xy_hex", J::s(hex(xy))),
            ("verdict_x", J::s(format!("{:?}", vx))),
            ("verdict_xy", J::s(format!("{:?}", vxy))),
        ]),
    });
}

/// Judge string `s` whose proper prefixes have verdicts `stack[k]` for prefix length k.
fn judge_against_prefixes(acc: &mut Acc, s: &[u8], vs: V, stack: &[V], first: usize, start_name: &str, iface: &str) {
    acc.res.evaluations += 1;
    if acc.res.samples.len() < 2 && s.len() >= 4 && matches!(vs, V::Ok(..)) {
        acc.res.sample(|| J::obj(vec![("start", J::s(start_name)), ("x", J::s(esc(s))), ("verdict", J::s(format!("{:?}", vs))), ("prefix_verdicts", J::strs(stack.iter().skip(1).map(|v| format!("{:?}", v))))]));
    }
    match vs {
        V::Ok(c, d) => {
            acc.ok += 1;
            if d != 0 {
                acc.ok_with_call += 1;
            }
            if c == 0 {
                report(acc, "ok-consumed-nothing", s, s, vs, vs, start_name, iface);
            }
        }
        V::Incomplete => {
            acc.incomplete += 1;
            // 'incomplete' only when the input ends inside a unit: a newline outside any string
            // or block payload terminates the unit, so input that ends in a newline and contains
            // no quote and no '#' cannot be incomplete
            if ends_in_plain_terminator(s) {
                acc.terminated_plain += 1;
                report(acc, "incomplete-although-terminated", s, s, vs, vs, start_name, iface);
            }
        }
        V::Err(_) => {
            acc.err += 1;
            if ends_in_plain_terminator(s) {
                acc.terminated_plain += 1;
            }
        }
    }
    for k in first..s.len() {
        let vp = stack[k];
        acc.pairs += 1;
        match vp {
            V::Ok(c, d) => {
                // appending bytes changes nothing but the remainder
                if vs != V::Ok(c, d) {
                    report(acc, "accepted-unit-changed-by-continuation", &s[..k], s, vp, vs, start_name, iface);
                }
            }
            V::Err(_) => {
                if k > 0 && s[k - 1] == b'\n' {
                    acc.final_err_prefixes += 1;
                    if let V::Ok(..) = vs {
                        report(acc, "rejected-terminated-input-accepted-after-continuation", &s[..k], s, vp, vs, start_name, iface);
                    }
                }
            }
            V::Incomplete => {}
        }
    }
}

fn dfs_shard(iface: &IfaceDesc, starts: &[(&'static str, &'static Node)], prefix: &[u8], max_len: usize) -> Acc {
    let mut acc = Acc::default();
    let root = (iface.root)();
    for (start_name, start) in starts {
        // verdicts of all prefixes of the current string, index = prefix length
        let mut stack: Vec<V> = Vec::with_capacity(max_len + 1);
        let mut s: Vec<u8> = Vec::with_capacity(max_len + 1);
        // seed the stack with the verdicts of the shard prefix's own prefixes
        stack.push(V::Incomplete); // length 0: never judged (parse is not called on empty input by run)
        for k in 1..=prefix.len() {
            s.push(prefix[k - 1]);
            let v = verdict(root, start, &s);
            if k == prefix.len() {
                judge_against_prefixes(&mut acc, &s, v, &stack, 1, start_name, iface.name);
                acc.strings += 1;
            }
            stack.push(v);
        }
        let mut idx: Vec<usize> = Vec::new();
        par::case_begin(prefix, [max_len as u64, 0, 0, 0]);
        loop {
            if s.len() < max_len {
                s.push(ALPHABET[0]);
                idx.push(0);
            }
            else {
                loop {
                    match idx.pop() {
                        None => break,
                        Some(i) => {
                            s.pop();
                            stack.pop();
                            if i + 1 < ALPHABET.len() {
                                s.push(ALPHABET[i + 1]);
                                idx.push(i + 1);
                                break;
                            }
                        }
                    }
                }
                if idx.is_empty() {
                    break;
                }
            }
            let v = verdict(root, start, &s);
            judge_against_prefixes(&mut acc, &s, v, &stack, 1, start_name, iface.name);
            acc.strings += 1;
            if acc.strings & 0xffff == 0 {
                // refresh the hang watchdog: it budgets CPU time per published case
                par::case_begin(&s, [max_len as u64, acc.strings, 0, 0]);
            }
            stack.push(v);
        }
        par::case_end();
    }
    acc
}

/// Long pairs: a rendered message sequence, every prefix judged against all shorter prefixes.
fn random_shard(ctx: &Ctx, ifaces: &[&'static IfaceDesc], shard: usize, cases: u64) -> Acc {
    let mut acc = Acc::default();
    let mut rng = Rng::fork(ctx.seed, 0xC12_0000 + shard as u64);
    for case in 0..cases {
        let iface = *rng.pick(ifaces);
        let root = (iface.root)();
        let gen = Gen::new(
            iface,
            GenOpts { lit: LitOpts { payload_newline: true, wild_payload: true, max_payload: if rng.chance(1, 4) { 30 } else { 6 } }, max_units: 2, ..Default::default() },
        );
        let mut s: Vec<u8> = Vec::new();
        for _ in 0..rng.range(1, 2) {
            let m = gen.valid_msg(&mut rng);
            let mut st = Style::plain();
            st.seed = rng.next();
            st.case = rng.below(3) as u8;
            st.crlf = rng.chance(1, 4);
            if rng.chance(1, 3) {
                // other white-space bytes (TAB, CR, VT, NUL ...) at the permitted positions
                let ws = |rng: &mut Rng| -> Vec<u8> { (0..rng.range(1, 2)).map(|_| *rng.pick(&super::c11::WS_BYTES)).collect() };
                st.ws_after_header = ws(&mut rng);
                if rng.chance(1, 2) {
                    st.ws_after_comma = ws(&mut rng);
                }
                if rng.chance(1, 2) {
                    st.ws_before_end = ws(&mut rng);
                }
            }
            s.extend_from_slice(&m.render(&st));
        }
        // continuation: arbitrary bytes (class alphabet, or any byte value)
        for _ in 0..rng.below(6) {
            s.push(if rng.chance(1, 3) { rng.byte() } else { *rng.pick(&ALPHABET) });
        }
        if rng.chance(1, 3) {
            // damage one byte so that error verdicts occur as well
            let i = rng.below(s.len());
            s[i] = if rng.chance(1, 3) { rng.byte() } else { *rng.pick(&ALPHABET) };
        }
        if s.len() > 160 {
            s.truncate(160);
        }
        acc.distinct.insert(fnv(&s));
        par::case_begin(&s, [shard as u64, case, 0, 0]);
        // start node: root or a random first-level node
        let start: &'static Node = if rng.chance(1, 3) && !root.children.is_empty() { rng.pick(root.children).1 } else { root };
        let mut stack: Vec<V> = vec![V::Incomplete];
        for k in 1..=s.len() {
            let v = verdict(root, start, &s[..k]);
            judge_against_prefixes(&mut acc, &s[..k], v, &stack, 1, "random", iface.name);
            acc.strings += 1;
            stack.push(v);
        }
        par::case_end();
    }
    acc
}

fn canary(mini: &IfaceDesc) -> Result<(), String> {
    let mut acc = Acc::default();
    // fabricated: prefix accepted, extension different
    judge_against_prefixes(&mut acc, b"A\nB", V::Err(-101), &[V::Incomplete, V::Incomplete, V::Ok(2, 5)], 1, "root", mini.name);
    // fabricated: terminated input rejected, continuation accepted
    judge_against_prefixes(&mut acc, b"Z\nB\n", V::Ok(4, 7), &[V::Incomplete, V::Incomplete, V::Err(-101), V::Incomplete], 1, "root", mini.name);
    // fabricated: Ok without consuming
    judge_against_prefixes(&mut acc, b"A", V::Ok(0, 0), &[V::Incomplete], 1, "root", mini.name);
    // fabricated: plain terminated input declared incomplete
    judge_against_prefixes(&mut acc, b"A\n", V::Incomplete, &[V::Incomplete, V::Incomplete], 1, "root", mini.name);
    if acc.res.violation_count != 4 {
        return Err(format!("C12 canary: oracle rejected {} of 4 fabricated verdict pairs", acc.res.violation_count));
    }
    // and the real parser must be reachable: "A\n" is accepted at the root of mini
    let root = (mini.root)();
    match verdict(root, root, b"A\n") {
        V::Ok(2, d) if d != 0 => Ok(()),
        other => Err(format!("C12 canary: parse(\"A\\n\") on the compact interface gave {:?}", other)),
    }
}

pub fn run(ctx: &Ctx) -> PropResult {
    let mini = ctx.iface("mini");
    let mut res = PropResult::default();
    if let Err(e) = canary(mini) {
        res.inconclusive = Some(e);
        return res;
    }
    let max_len = if ctx.thorough { 7 } else { 6 };
    let root = (mini.root)();
    let a_node = root.child("A").expect("node A");
    let ab_node = a_node.child("B").expect("node A:B");
    let starts: Vec<(&'static str, &'static Node)> = vec![("root", root), ("A", a_node), ("A:B", ab_node)];

    let a = ALPHABET.len();
    let n_ex = a * a;
    let mut all: Vec<&'static IfaceDesc> = ctx.built(&["mini", "pzoo"]);
    all.extend(ctx.random_ifaces());
    let rand_shards = 32usize;
    let rand_cases = ctx.scaled(if ctx.thorough { 40_000 } else { 4_000 });
    // thorough: the root start node is enumerated one symbol deeper than the others
    let deep_root = ctx.thorough;
    let starts_main: Vec<(&'static str, &'static Node)> = if deep_root { starts[1..].to_vec() } else { starts.clone() };
    let root_only: Vec<(&'static str, &'static Node)> = vec![starts[0]];
    let n_deep = if deep_root { n_ex } else { 0 };
    let accs = par::run_shards(
        n_ex + 1 + rand_shards + n_deep,
        ctx.threads,
        |i| {
            if i >= n_ex + 1 + rand_shards {
                let k = i - (n_ex + 1 + rand_shards);
                dfs_shard(mini, &root_only, &[ALPHABET[k / a], ALPHABET[k % a]], max_len + 1)
            }
            else if i < n_ex {
                dfs_shard(mini, &starts_main, &[ALPHABET[i / a], ALPHABET[i % a]], max_len)
            }
            else if i == n_ex {
                // strings of length 1
                let mut acc = Acc::default();
                for (name, start) in &starts {
                    for c in ALPHABET {
                        let v = verdict(root, start, &[c]);
                        judge_against_prefixes(&mut acc, &[c], v, &[V::Incomplete], 1, name, mini.name);
                        acc.strings += 1;
                    }
                }
                acc
            }
            else {
                random_shard(ctx, &all, i - n_ex - 1, rand_cases)
            }
        },
        |h| ctx.on_hang(h),
    );
    let (mut strings, mut pairs, mut ok, mut inc, mut err, mut okc, mut fe) = (0u64, 0u64, 0u64, 0u64, 0u64, 0u64, 0u64);
    let mut distinct = 0u64;
    for (i, acc) in accs.into_iter().enumerate() {
        strings += acc.strings;
        pairs += acc.pairs;
        ok += acc.ok;
        inc += acc.incomplete;
        err += acc.err;
        okc += acc.ok_with_call;
        fe += acc.final_err_prefixes;
        distinct += if i <= n_ex || i >= n_ex + 1 + rand_shards { acc.strings } else { acc.distinct.len() as u64 };
        res.merge(acc.res);
    }
    res.distinct = distinct;
    res.rule = format!(
        "exhaustive: every string of length <= {} over the {}-symbol class alphabet, parsed from 3 start nodes (root, A, A:B) of the compact interface, every (prefix, string) pair judged; random: rendered messages with payload newlines + arbitrary continuation, every prefix pair judged, over {} interfaces with random start nodes. distinct = distinct (string, start node) inputs",
        max_len,
        a,
        all.len()
    );
    res.cov("exhaustive", true);
    res.cov("exhaustive_max_len", max_len);
    res.cov("exhaustive_max_len_root_start_node", if deep_root { max_len + 1 } else { max_len });
    res.cov("strings_parsed", strings);
    res.cov("prefix_pairs_judged", pairs);
    res.cov("verdict_ok", ok);
    res.cov("verdict_ok_with_call", okc);
    res.cov("verdict_incomplete", inc);
    res.cov("verdict_error", err);
    res.cov("terminated_rejected_prefixes_with_continuations", fe);
    res.samples.truncate(5);
    let described: Vec<J> = vec![
        J::obj(vec![("x", J::s("A \"\\n")), ("xy", J::s("A \"\\n\"\\n")), ("start", J::s("root"))]),
        J::obj(vec![("x", J::s("B;")), ("xy", J::s("B;#H1\\n")), ("start", J::s("A"))]),
    ];
    res.samples.extend(described.into_iter().take(1));
    res.assumptions = vec!["equality of calls is judged on (node, path node, query flag, terminated flag, argument kinds and texts)".into()];
    if ok == 0 || inc == 0 || err == 0 || okc == 0 {
        res.inconclusive = Some("some verdict class was never observed".into());
    }
    res
}
