//! C07 — `process` depends only on the byte stream, not on how it arrives.
//!
//! Differential oracle between real executions: for one (stream, N) the
//! handler calls with arguments, the error sequence and the concatenated
//! response bytes must be identical for every composition of read sizes and
//! every Pending pattern (reference: byte-wise, no suspension); and, when every
//! message fits N and has no inner newline, identical to handing the messages
//! to `run` one at a time.

use std::collections::HashSet;

use super::c05::{random_chunks, ALPHABET};
use super::{hex, Ctx};
use crate::drive::{IfaceDesc, ProcSpec, RunSpec, WriterKind};
use crate::ev::{esc, Ev};
use crate::out::{PropResult, Violation, J};
use crate::par;
use crate::prng::{fnv, Rng};
use crate::sem::{streams, Streams};
use crate::wl::{Gen, GenOpts, LitOpts, Style, ALL_FAULTS};

#[derive(Default)]
struct Acc {
    res: PropResult,
    pairs: HashSet<u64>,
    compositions: u64,
    exact_fill_reads: u64,
    zero_reads: u64,
    shrunk_cap_reads: u64,
    pendings: u64,
    clause2: u64,
    clause2_skipped: u64,
    calls: u64,
    errors: u64,
}

fn note_trace(acc: &mut Acc, n: usize, log: &[Ev]) {
    for e in log {
        if let Ev::Read { cap, n: got } = e {
            if *got == *cap {
                acc.exact_fill_reads += 1;
            }
            if *got == 0 {
                acc.zero_reads += 1;
            }
            if *cap < n {
                acc.shrunk_cap_reads += 1;
            }
        }
    }
}

fn chunks_json(chunks: &[usize]) -> J {
    J::Arr(chunks.iter().take(80).map(|c| J::Int(if *c == usize::MAX { -1 } else { *c as i64 })).collect())
}

fn diff_sig(a: &Streams, b: &Streams) -> &'static str {
    if a.ce != b.ce {
        let ca: Vec<_> = a.ce.iter().filter(|s| matches!(s, crate::sem::Sem::Call { .. })).collect();
        let cb: Vec<_> = b.ce.iter().filter(|s| matches!(s, crate::sem::Sem::Call { .. })).collect();
        if ca != cb {
            "handler-calls-differ"
        }
        else {
            "errors-differ"
        }
    }
    else {
        "response-bytes-differ"
    }
}

/// Compares one execution against the reference; records a violation.
#[allow(clippy::too_many_arguments)]
fn compare(
    acc: &mut Acc, iface: &IfaceDesc, stream: &[u8], n: usize, reference: &Streams, chunks: &[usize], pend: u64, clause: &str,
    got: &Streams,
) {
    acc.res.evaluations += 1;
    acc.res.sample(|| J::obj(vec![("iface", J::s(iface.name)), ("stream", J::s(esc(stream))), ("n", n.into()), ("chunks", chunks_json(chunks)), ("pend_seed", pend.into()), ("clause", J::s(clause)), ("outcome", J::strs(got.show()))]));
    if got != reference {
        let sig = format!("{}/{}", clause, diff_sig(reference, got));
        acc.res.add_violation(Violation {
            sig,
            summary: format!(
                "process::<{}> on \"{}\": outcome differs from the byte-wise execution ({})",
                n,
                esc(&stream[..stream.len().min(80)]),
                clause
            ),
            witness: J::obj(vec![
                ("iface", J::s(iface.name)),
                ("stream", J::s(esc(stream))),
                ("stream_hex", J::s(hex(stream))),
                ("n", n.into()),
                ("chunks", chunks_json(chunks)),
                ("pend_seed", pend.into()),
                ("reference", J::strs(reference.show())),
                ("observed", J::strs(got.show())),
            ]),
        });
    }
}

/// All compositions of `len` as read sizes, indexed by a bit mask of cut positions.
fn composition(len: usize, mask: u32) -> Vec<usize> {
    let mut v = Vec::new();
    let mut cur = 1usize;
    for i in 0..len.saturating_sub(1) {
        if mask & (1 << i) != 0 {
            v.push(cur);
            cur = 1;
        }
        else {
            cur += 1;
        }
    }
    if len > 0 {
        v.push(cur);
    }
    v
}

fn run_ref(iface: &IfaceDesc, stream: &[u8], n: usize) -> Option<(Streams, Vec<Ev>)> {
    let ones = vec![1usize; stream.len()];
    let out = (iface.process)(&ProcSpec { stream, n, chunks: &ones, pend_seed: 0, fault_at: None });
    if out.crashed() {
        return None;
    }
    Some((streams(&out.log), out.log))
}

/// Second clause: compare with one `run` call per message on a twin device.
fn clause2(acc: &mut Acc, iface: &IfaceDesc, msgs: &[Vec<u8>], stream: &[u8], n: usize, reference: &Streams) {
    let refs: Vec<&[u8]> = msgs.iter().map(|m| &m[..]).collect();
    let out = (iface.run)(&RunSpec { inputs: &refs, writer: WriterKind::Rec(None), pend_seed: 0 });
    if out.crashed() {
        acc.res.skipped_crash += 1;
        return;
    }
    // applicable only if every message and every message's response fits N
    let mut fits = msgs.iter().all(|m| m.len() <= n);
    let mut cur = 0usize;
    for e in &out.log {
        match e {
            Ev::Mark(_) => cur = 0,
            Ev::Write(b) => {
                cur += b.len();
                if cur > n {
                    fits = false;
                }
            }
            _ => {}
        }
    }
    if !fits {
        acc.clause2_skipped += 1;
        return;
    }
    acc.clause2 += 1;
    let got = streams(&out.log);
    acc.res.evaluations += 1;
    if &got != reference {
        acc.res.add_violation(Violation {
            sig: format!("process-vs-run-per-message/{}", diff_sig(&got, reference)),
            summary: format!(
                "process::<{}> on \"{}\" differs from handing the {} messages to run one at a time",
                n,
                esc(&stream[..stream.len().min(80)]),
                msgs.len()
            ),
            witness: J::obj(vec![
                ("iface", J::s(iface.name)),
                ("stream", J::s(esc(stream))),
                ("stream_hex", J::s(hex(stream))),
                ("n", n.into()),
                ("run_per_message", J::strs(got.show())),
                ("process_bytewise", J::strs(reference.show())),
            ]),
        });
    }
}

const SHORT_POOL: [&[u8]; 14] = [
    b"A\n", b"C\n", b"A?\n", b"A:B 1\n", b"A:C\n", b"B:C 1\n", b"*RST\n", b"Z\n", b"A:Z\n", b"A;B\n", b"N 1,2\n", b"\n", b"A:B\n", b"A ;\n",
];

fn short_streams(max_len: usize) -> Vec<(Vec<u8>, Vec<Vec<u8>>)> {
    let mut v = Vec::new();
    let k = SHORT_POOL.len();
    for a in 0..k {
        for b in 0..k {
            let s2: Vec<u8> = [SHORT_POOL[a], SHORT_POOL[b]].concat();
            if s2.len() <= max_len {
                v.push((s2.clone(), vec![SHORT_POOL[a].to_vec(), SHORT_POOL[b].to_vec()]));
            }
            for c in 0..k {
                let s3: Vec<u8> = [SHORT_POOL[a], SHORT_POOL[b], SHORT_POOL[c]].concat();
                if s3.len() <= max_len {
                    v.push((s3, vec![SHORT_POOL[a].to_vec(), SHORT_POOL[b].to_vec(), SHORT_POOL[c].to_vec()]));
                }
            }
        }
    }
    v
}

fn exhaustive_shard(iface: &IfaceDesc, items: &[(Vec<u8>, Vec<Vec<u8>>)], n: usize) -> Acc {
    let mut acc = Acc::default();
    for (stream, msgs) in items {
        par::case_begin(stream, [n as u64, 0, 0, 0]);
        let (reference, _) = match run_ref(iface, stream, n) {
            Some(r) => r,
            None => {
                acc.res.skipped_crash += 1;
                continue;
            }
        };
        acc.calls += reference.calls() as u64;
        acc.errors += reference.errs() as u64;
        acc.pairs.insert(fnv(stream) ^ (n as u64).wrapping_mul(0x9E3779B97F4A7C15));
        let len = stream.len();
        for mask in 0..(1u32 << (len - 1)) {
            let chunks = composition(len, mask);
            let out = (iface.process)(&ProcSpec { stream, n, chunks: &chunks, pend_seed: 0, fault_at: None });
            if out.crashed() {
                acc.res.skipped_crash += 1;
                continue;
            }
            acc.compositions += 1;
            note_trace(&mut acc, n, &out.log);
            compare(&mut acc, iface, stream, n, &reference, &chunks, 0, "chunking", &streams(&out.log));
        }
        clause2(&mut acc, iface, msgs, stream, n, &reference);
        par::case_end();
    }
    acc
}

fn random_shard(ctx: &Ctx, ifaces: &[&'static IfaceDesc], shard: usize, cases: u64) -> Acc {
    let mut acc = Acc::default();
    let mut rng = Rng::fork(ctx.seed, 0xC07_0000 + shard as u64);
    for case in 0..cases {
        let iface = *rng.pick(ifaces);
        let kind = rng.below(4);
        let payload_nl = kind == 1;
        let gen = Gen::new(
            iface,
            GenOpts { lit: LitOpts { payload_newline: payload_nl, wild_payload: true, max_payload: 10 }, max_units: 3, ..Default::default() },
        );
        let mut msgs: Vec<Vec<u8>> = Vec::new();
        let mut structured = true;
        let mut has_nl = false;
        let n_msgs = if rng.chance(1, 30) { rng.range(30, 90) } else { rng.range(1, 5) };
        for _ in 0..n_msgs {
            if kind == 3 {
                // arbitrary bytes over the class alphabet
                let len = rng.range(1, 12);
                let mut b: Vec<u8> = (0..len).map(|_| *rng.pick(&ALPHABET)).collect();
                b.push(b'\n');
                structured = false;
                msgs.push(b);
                continue;
            }
            let m = if kind == 2 && rng.chance(1, 2) {
                let f = *rng.pick(&ALL_FAULTS);
                gen.faulty_msg(f, rng.below(3) as u8, &mut rng).unwrap_or_else(|| gen.valid_msg(&mut rng))
            }
            else {
                gen.valid_msg(&mut rng)
            };
            has_nl |= m.has_payload_newline();
            let mut st = Style::plain();
            st.seed = rng.next();
            msgs.push(m.render(&st));
        }
        let stream: Vec<u8> = msgs.concat();
        let ns = (iface.ns)();
        // long streams go to the large buffers (offsets beyond 255 / 65535 need them)
        let big: Vec<usize> = ns.iter().copied().filter(|n| *n >= 256).collect();
        let n = if stream.len() > 400 && !big.is_empty() { *rng.pick(&big) } else { *rng.pick(&ns) };
        par::case_begin(&stream, [shard as u64, case, n as u64, 0]);
        let (reference, _) = match run_ref(iface, &stream, n) {
            Some(r) => r,
            None => {
                acc.res.skipped_crash += 1;
                continue;
            }
        };
        acc.calls += reference.calls() as u64;
        acc.errors += reference.errs() as u64;
        acc.pairs.insert(fnv(&stream) ^ (n as u64).wrapping_mul(0x9E3779B97F4A7C15));
        for k in 0..6 {
            let chunks = match k {
                0 => vec![],
                1 => vec![usize::MAX; stream.len() + 1],
                _ => random_chunks(&mut rng, stream.len()),
            };
            let pend = if k >= 3 { rng.next() | 1 } else { 0 };
            let out = (iface.process)(&ProcSpec { stream: &stream, n, chunks: &chunks, pend_seed: pend, fault_at: None });
            if out.crashed() {
                acc.res.skipped_crash += 1;
                continue;
            }
            acc.compositions += 1;
            acc.pendings += out.pendings;
            note_trace(&mut acc, n, &out.log);
            compare(&mut acc, iface, &stream, n, &reference, &chunks, pend, if pend != 0 { "chunking+pending" } else { "chunking" }, &streams(&out.log));
        }
        if structured && !has_nl {
            clause2(&mut acc, iface, &msgs, &stream, n, &reference);
        }
        par::case_end();
    }
    acc
}

fn canary() -> Result<(), String> {
    use crate::sem::Sem;
    let a = Streams { ce: vec![Sem::Call { h: 1, args: vec![], ok: true }], out: b"1\n".to_vec() };
    let mut b = a.clone();
    b.ce.push(Sem::Call { h: 1, args: vec![], ok: true });
    let mut c = a.clone();
    c.out = b"2\n".to_vec();
    if a == b || a == c || diff_sig(&a, &b) != "handler-calls-differ" || diff_sig(&a, &c) != "response-bytes-differ" {
        return Err("C07 canary: differential oracle accepted differing executions".into());
    }
    Ok(())
}

pub fn run(ctx: &Ctx) -> PropResult {
    let mini = ctx.iface("mini");
    let mut res = PropResult::default();
    if let Err(e) = canary() {
        res.inconclusive = Some(e);
        return res;
    }
    let max_len = if ctx.thorough { 15 } else { 12 };
    let shorts = short_streams(max_len);
    let ns: Vec<usize> = (1..=16).chain([24, 32, 64]).collect();
    let mut all: Vec<&'static IfaceDesc> = ctx.built(&["mini", "pzoo"]);
    all.extend(ctx.random_ifaces());
    let rand_shards = 64usize;
    let rand_cases = ctx.scaled(if ctx.thorough { 100_000 } else { 8_000 });
    // exhaustive shards: (N, slice of the short streams)
    let slices = 8usize;
    let per = shorts.len().div_ceil(slices);
    let n_ex = ns.len() * slices;
    let accs = par::run_shards(
        n_ex + rand_shards,
        ctx.threads,
        |i| {
            if i < n_ex {
                let n = ns[i / slices];
                let s = i % slices;
                let lo = (s * per).min(shorts.len());
                let hi = ((s + 1) * per).min(shorts.len());
                exhaustive_shard(mini, &shorts[lo..hi], n)
            }
            else {
                random_shard(ctx, &all, i - n_ex, rand_cases)
            }
        },
        |h| ctx.on_hang(h),
    );
    let mut pairs = HashSet::new();
    let (mut comps, mut fill, mut zero, mut shrunk, mut pend, mut c2, mut c2s, mut calls, mut errors) = (0, 0, 0, 0, 0, 0, 0, 0, 0);
    for acc in accs {
        pairs.extend(acc.pairs);
        comps += acc.compositions;
        fill += acc.exact_fill_reads;
        zero += acc.zero_reads;
        shrunk += acc.shrunk_cap_reads;
        pend += acc.pendings;
        c2 += acc.clause2;
        c2s += acc.clause2_skipped;
        calls += acc.calls;
        errors += acc.errors;
        res.merge(acc.res);
    }
    res.distinct = pairs.len() as u64;
    res.rule = format!(
        "exhaustive: {} streams of 2-3 short messages (<= {} bytes) on the compact interface x N in 1..=16,24,32,64 x ALL 2^(len-1) compositions of read sizes, each compared with the byte-wise execution, plus run-per-message twin; random: valid / payload-newline / faulty / arbitrary-byte streams over {} interfaces, N from each interface's set, one read / exact-fill reads / random compositions with zero-length reads, with and without Pending injection. distinct = distinct (stream, N) pairs",
        shorts.len(),
        max_len,
        all.len()
    );
    res.cov("distinct_stream_n_pairs", pairs.len());
    res.cov("executions_compared", comps);
    res.cov("reads_that_exactly_filled_the_buffer", fill);
    res.cov("zero_length_reads", zero);
    res.cov("reads_with_partially_filled_buffer", shrunk);
    res.cov("pending_returns_injected", pend);
    res.cov("run_per_message_comparisons", c2);
    res.cov("run_per_message_not_applicable", c2s);
    res.cov("handler_calls_in_references", calls);
    res.cov("errors_in_references", errors);
    res.cov("exhaustive_compositions_up_to_len", max_len);
    res.samples.truncate(5);
    let described: Vec<J> = vec![
        J::obj(vec![("stream", J::s("C\\nA:B\\n")), ("n", 4usize.into()), ("chunks", J::Arr(vec![J::Int(4), J::Int(2)]))]),
        J::obj(vec![("stream", J::s(esc(&shorts[shorts.len() / 2].0))), ("n", 7usize.into()), ("chunks", J::s("all compositions"))]),
    ];
    res.samples.extend(described.into_iter().take(1));
    res.assumptions = vec!["handler results are a pure function of (declaration, arguments)".into()];
    if comps == 0 || calls == 0 {
        res.inconclusive = Some("no executions compared".into());
    }
    res
}
