//! Sharded parallel execution with a hang watchdog (thread CPU time).

use std::sync::atomic::{AtomicBool, AtomicU64, Ordering};
use std::sync::{Arc, Mutex};
use std::time::{Duration, Instant};

#[derive(Default)]
pub struct Slot {
    pub seq: AtomicU64,
    pub active: AtomicBool,
    pub tid: AtomicU64,
    pub desc: Mutex<(Vec<u8>, [u64; 4])>,
}

thread_local! {
    static MY_SLOT: std::cell::RefCell<Option<Arc<Slot>>> = const { std::cell::RefCell::new(None) };
}

/// Publish the case about to be executed (cheap; read only if it gets stuck).
pub fn case_begin(input: &[u8], params: [u64; 4]) {
    MY_SLOT.with(|s| {
        if let Some(slot) = s.borrow().as_ref() {
            crate::alloc::exempt(|| {
                let mut d = slot.desc.lock().unwrap();
                d.0.clear();
                d.0.extend_from_slice(&input[..input.len().min(4096)]);
                d.1 = params;
            });
            slot.seq.fetch_add(1, Ordering::Relaxed);
            slot.active.store(true, Ordering::Release);
        }
    });
}

pub fn case_end() {
    MY_SLOT.with(|s| {
        if let Some(slot) = s.borrow().as_ref() {
            slot.active.store(false, Ordering::Release);
        }
    });
}

fn my_tid() -> u64 {
    std::fs::read_link("/proc/thread-self")
        .ok()
        .and_then(|p| p.file_name().map(|f| f.to_string_lossy().to_string()))
        .and_then(|s| s.parse().ok())
        .unwrap_or(0)
}

/// user+system CPU time of a thread of this process, in clock ticks (100/s)
fn thread_cpu_ticks(tid: u64) -> Option<u64> {
    let s = std::fs::read_to_string(format!("/proc/self/task/{}/stat", tid)).ok()?;
    let rest = &s[s.rfind(')')? + 2..];
    let f: Vec<&str> = rest.split_whitespace().collect();
    // fields after comm: state(0) ... utime is field 14 overall => index 11 here, stime 12
    let ut: u64 = f.get(11)?.parse().ok()?;
    let st: u64 = f.get(12)?.parse().ok()?;
    Some(ut + st)
}

pub struct HangReport {
    pub input: Vec<u8>,
    pub params: [u64; 4],
    pub cpu_s: f64,
}

/// CPU seconds one case may burn before it is declared a hang.
pub const HANG_CPU_S: f64 = 20.0;

/// Runs `shards` work items on `threads` threads.  `on_hang` is called from the
/// watchdog thread if one case burns more than HANG_CPU_S of thread CPU time;
/// it must not return (it reports and exits the process).
pub fn run_shards<R: Send>(
    shards: usize, threads: usize, work: impl Fn(usize) -> R + Sync, on_hang: impl Fn(HangReport) + Sync,
) -> Vec<R> {
    let next = AtomicU64::new(0);
    let results: Mutex<Vec<(usize, R)>> = Mutex::new(Vec::new());
    let slots: Vec<Arc<Slot>> = (0..threads).map(|_| Arc::new(Slot::default())).collect();
    let done = AtomicBool::new(false);
    std::thread::scope(|sc| {
        // watchdog (not under Miri: it reads /proc and sleeps on the wall clock)
        sc.spawn(|| {
            if cfg!(miri) {
                return;
            }
            let mut seen: Vec<(u64, u64, Instant)> = slots.iter().map(|_| (u64::MAX, 0, Instant::now())).collect();
            while !done.load(Ordering::Acquire) {
                std::thread::sleep(Duration::from_millis(200));
                for (i, slot) in slots.iter().enumerate() {
                    if !slot.active.load(Ordering::Acquire) {
                        seen[i].0 = u64::MAX;
                        continue;
                    }
                    let seq = slot.seq.load(Ordering::Relaxed);
                    let tid = slot.tid.load(Ordering::Relaxed);
                    let cpu = thread_cpu_ticks(tid).unwrap_or(0);
                    if seen[i].0 != seq {
                        seen[i] = (seq, cpu, Instant::now());
                        continue;
                    }
                    let burnt = (cpu - seen[i].1) as f64 / 100.0;
                    if burnt >= HANG_CPU_S {
                        let d = slot.desc.lock().unwrap();
                        on_hang(HangReport { input: d.0.clone(), params: d.1, cpu_s: burnt });
                    }
                }
            }
        });
        let mut handles = Vec::new();
        for t in 0..threads {
            let slot = slots[t].clone();
            let next = &next;
            let results = &results;
            let work = &work;
            handles.push(sc.spawn(move || {
                slot.tid.store(my_tid(), Ordering::Relaxed);
                MY_SLOT.with(|s| *s.borrow_mut() = Some(slot));
                loop {
                    let i = next.fetch_add(1, Ordering::Relaxed) as usize;
                    if i >= shards {
                        break;
                    }
                    let r = work(i);
                    results.lock().unwrap().push((i, r));
                }
                case_end();
            }));
        }
        for h in handles {
            // a panic in harness code (not inside catch_unwind) is a harness bug
            if h.join().is_err() {
                eprintln!("HARNESS-ERROR: worker thread panicked outside the monitored call");
                std::process::exit(2);
            }
        }
        done.store(true, Ordering::Release);
    });
    let mut v = results.into_inner().unwrap();
    v.sort_by_key(|x| x.0);
    v.into_iter().map(|x| x.1).collect()
}
