//! Structured workload generator (DESIGN.md section 3, kind S).
//!
//! Builds program messages as ASTs over an interface's declarations, renders
//! them to bytes in a chosen lexical style, and computes the expected
//! semantic events from the AST and the declaration strings alone.

use crate::drive::IfaceDesc;
use crate::ev::{Arg, Fail, Leaf, RetTy, Ty};
use crate::prng::Rng;
use crate::spec::{parse_decl, Decl, Model, Target};

#[derive(Clone, Debug, PartialEq)]
pub enum ErrSpec {
    /// exactly one error, any number
    Any,
    /// exactly one error with this number
    Num(i16),
    /// the handler's own error, verbatim
    Exact { num: i16, text: String },
}

#[derive(Clone, Debug, PartialEq)]
pub enum Expect {
    Call { h: u16, args: Vec<Arg>, ok: bool },
    Resp(Vec<Leaf>),
    Err(ErrSpec),
}

#[derive(Clone, Copy, Debug, PartialEq, Eq, Hash)]
pub enum Fault {
    BadChar,
    BadSep,
    /// a parameter that is no literal of any kind (`1E`, `--1`, `1..2`, `@`): a syntax error in
    /// a terminated message that leaves no string or block open
    BadLiteral,
    UnknownMnem,
    WrongKind,
    TooFew,
    TooMany,
    OverMax,
    WrongType,
    OutOfRange,
    NotBool,
    Handler,
    /// the header addresses an inner node of the tree that carries no handler of that kind
    /// (execute-level -113; the path still advances)
    InnerNode,
}

pub const ALL_FAULTS: [Fault; 13] = [
    Fault::BadChar,
    Fault::BadSep,
    Fault::BadLiteral,
    Fault::UnknownMnem,
    Fault::WrongKind,
    Fault::TooFew,
    Fault::TooMany,
    Fault::OverMax,
    Fault::WrongType,
    Fault::OutOfRange,
    Fault::NotBool,
    Fault::Handler,
    Fault::InnerNode,
];

impl Fault {
    /// Faults the parser reports (the rest of the message is then not executed
    /// by an implementation that discards the message; executed by none).
    pub fn parse_level(&self) -> bool {
        matches!(self, Fault::BadChar | Fault::BadSep | Fault::BadLiteral | Fault::UnknownMnem | Fault::OverMax)
    }
}

#[derive(Clone, Debug)]
pub struct Lit {
    pub text: Vec<u8>,
}

/// One mnemonic of a header as the AST keeps it: both forms, which one is used.
#[derive(Clone, Debug)]
pub struct Mnem {
    pub long: String,
    pub short: String,
    pub use_short: bool,
}

#[derive(Clone, Debug)]
pub struct UnitAst {
    /// leading ':'
    pub abs: bool,
    /// spelled mnemonics written in this unit (after removing the path prefix for relative units)
    pub mnems: Vec<Mnem>,
    /// for a relative unit: how the *target declaration* reads the path mnemonics it is resolved
    /// against (both forms of its own nodes).  Where these differ from the forms of the node
    /// that wrote the path mnemonic (sibling nodes with a common spelling, `VOLT` / `VOLTage`),
    /// exchanging short and long form is not meaning-preserving and the renderer keeps the
    /// written form.
    pub rel_prefix: Vec<Mnem>,
    /// raw header text override (faults that are not expressible as mnemonics)
    pub raw_header: Option<Vec<u8>>,
    pub query: bool,
    pub lits: Vec<Lit>,
    /// use this byte string instead of ',' between parameter k and k+1
    pub bad_sep_at: Option<usize>,
    pub expects: Vec<Expect>,
    pub fault: Option<Fault>,
    pub target: Option<Target>,
    pub payload_newline: bool,
}

#[derive(Clone, Debug)]
pub struct MsgAst {
    pub units: Vec<UnitAst>,
    pub trailing_semicolon: bool,
}

/// Lexical style of a rendering (C11 varies it; everything else uses `plain`).
#[derive(Clone, Debug)]
pub struct Style {
    /// 0 upper, 1 lower, 2 random per letter
    pub case: u8,
    /// flip short/long of each mnemonic with this probability (per 8)
    pub flip_form: u8,
    /// white space bytes to insert at each position class (empty = canonical)
    pub ws_unit_start: Vec<u8>,
    pub ws_after_header: Vec<u8>,
    pub ws_before_comma: Vec<u8>,
    pub ws_after_comma: Vec<u8>,
    pub ws_before_end: Vec<u8>,
    pub crlf: bool,
    pub seed: u64,
}

impl Style {
    pub fn plain() -> Style {
        Style {
            case: 0,
            flip_form: 0,
            ws_unit_start: vec![],
            ws_after_header: vec![b' '],
            ws_before_comma: vec![],
            ws_after_comma: vec![],
            ws_before_end: vec![],
            crlf: false,
            seed: 1,
        }
    }
}

fn apply_case(s: &str, case: u8, rng: &mut Rng) -> String {
    match case {
        0 => s.to_ascii_uppercase(),
        1 => s.to_ascii_lowercase(),
        _ => s
            .chars()
            .map(|c| if rng.chance(1, 2) { c.to_ascii_lowercase() } else { c.to_ascii_uppercase() })
            .collect(),
    }
}

impl UnitAst {
    pub fn render(&self, style: &Style, rng: &mut Rng, out: &mut Vec<u8>) {
        self.render_pinned(style, rng, out, &[])
    }
    /// `pinned[i]`: mnemonic i keeps its written form whatever `style.flip_form` says.
    pub fn render_pinned(&self, style: &Style, rng: &mut Rng, out: &mut Vec<u8>, pinned: &[bool]) {
        out.extend_from_slice(&style.ws_unit_start);
        if let Some(raw) = &self.raw_header {
            out.extend_from_slice(raw);
        }
        else {
            if self.abs {
                out.push(b':');
            }
            for (i, m) in self.mnems.iter().enumerate() {
                if i > 0 {
                    out.push(b':');
                }
                let mut short = m.use_short;
                if style.flip_form > 0 && rng.below(8) < style.flip_form as usize && !pinned.get(i).copied().unwrap_or(false) {
                    short = !short;
                }
                let s = if short { &m.short } else { &m.long };
                out.extend_from_slice(apply_case(s, style.case, rng).as_bytes());
            }
        }
        if self.query {
            out.push(b'?');
        }
        if !self.lits.is_empty() {
            if style.ws_after_header.is_empty() {
                out.push(b' ');
            }
            else {
                out.extend_from_slice(&style.ws_after_header);
            }
            for (i, l) in self.lits.iter().enumerate() {
                if i > 0 {
                    if self.bad_sep_at == Some(i - 1) {
                        out.push(b' ');
                    }
                    else {
                        out.extend_from_slice(&style.ws_before_comma);
                        out.push(b',');
                        out.extend_from_slice(&style.ws_after_comma);
                    }
                }
                out.extend_from_slice(&l.text);
            }
        }
        out.extend_from_slice(&style.ws_before_end);
    }
}

impl MsgAst {
    pub fn render(&self, style: &Style) -> Vec<u8> {
        let mut rng = Rng::new(style.seed);
        let mut out = Vec::new();
        let pins = if style.flip_form > 0 { self.form_pins() } else { vec![] };
        for (i, u) in self.units.iter().enumerate() {
            if i > 0 {
                out.push(b';');
            }
            u.render_pinned(style, &mut rng, &mut out, pins.get(i).map(|p| p.as_slice()).unwrap_or(&[]));
        }
        if self.trailing_semicolon {
            out.push(b';');
        }
        if style.crlf {
            out.push(b'\r');
        }
        out.push(b'\n');
        out
    }
    /// Which written mnemonics must keep their form when short and long forms are exchanged:
    /// a path mnemonic that a later relative unit reads as a form of a *different* node (sibling
    /// nodes that share a spelling).  The path is the spelled header prefix (C02), so for those
    /// an exchange changes what the later unit is resolved against.
    pub fn form_pins(&self) -> Vec<Vec<bool>> {
        let mut pins: Vec<Vec<bool>> = self.units.iter().map(|u| vec![false; u.mnems.len()]).collect();
        // the current path as (unit, mnemonic index) origins
        let mut cur: Vec<(usize, usize)> = Vec::new();
        let mut known = true;
        for (ui, u) in self.units.iter().enumerate() {
            if u.raw_header.is_some() {
                known = false;
                continue;
            }
            if u.mnems.first().map(|m| m.long.starts_with('*')).unwrap_or(false) {
                continue;
            }
            let relative = !u.abs && ui > 0;
            if relative && !known {
                // the path is not known to this function: keep every earlier mnemonic as written
                for p in pins.iter_mut().take(ui) {
                    p.iter_mut().for_each(|b| *b = true);
                }
            }
            let mut full: Vec<(usize, usize)> = Vec::new();
            if relative && known {
                if u.rel_prefix.len() != cur.len() {
                    for (pu, pm) in &cur {
                        pins[*pu][*pm] = true;
                    }
                }
                else {
                    for ((pu, pm), want) in cur.iter().zip(&u.rel_prefix) {
                        let have = &self.units[*pu].mnems[*pm];
                        if have.long != want.long || have.short != want.short {
                            pins[*pu][*pm] = true;
                        }
                    }
                }
                full.extend(cur.iter().copied());
            }
            full.extend((0..u.mnems.len()).map(|mi| (ui, mi)));
            full.pop();
            cur = full;
            if u.abs || ui == 0 {
                known = true;
            }
        }
        pins
    }
    pub fn expects(&self) -> Vec<Expect> {
        self.units.iter().flat_map(|u| u.expects.iter().cloned()).collect()
    }
    pub fn has_fault(&self) -> bool {
        self.units.iter().any(|u| u.fault.is_some())
    }
    pub fn has_payload_newline(&self) -> bool {
        self.units.iter().any(|u| u.payload_newline)
    }
}

// ---------------------------------------------------------------------------
// literals
// ---------------------------------------------------------------------------

#[derive(Clone, Copy, Debug)]
pub struct LitOpts {
    /// allow newline inside string and block payloads
    pub payload_newline: bool,
    /// allow arbitrary bytes in blocks / arbitrary UTF-8 in strings
    pub wild_payload: bool,
    pub max_payload: usize,
}

impl Default for LitOpts {
    fn default() -> Self {
        LitOpts { payload_newline: false, wild_payload: true, max_payload: 12 }
    }
}

fn int_literal(v: i128, rng: &mut Rng) -> Vec<u8> {
    if v >= 0 {
        match rng.below(8) {
            0 => format!("#H{:X}", v).into_bytes(),
            1 => format!("#h{:x}", v).into_bytes(),
            2 => {
                if v % 2 == 0 {
                    format!("#Q{:o}", v).into_bytes()
                }
                else {
                    format!("#q{:o}", v).into_bytes()
                }
            }
            3 => {
                if v % 2 == 0 {
                    format!("#B{:b}", v).into_bytes()
                }
                else {
                    format!("#b{:b}", v).into_bytes()
                }
            }
            4 => format!("+{}", v).into_bytes(),
            5 => format!("00{}", v).into_bytes(),
            _ => format!("{}", v).into_bytes(),
        }
    }
    else {
        format!("{}", v).into_bytes()
    }
}

pub fn pick_int(ty: Ty, rng: &mut Rng) -> i128 {
    let (lo, hi) = ty.int_range().unwrap();
    match rng.below(8) {
        0 => lo,
        1 => hi,
        2 => 0,
        3 => (lo + 1).min(hi),
        4 => hi - 1,
        5 => {
            if lo < 0 {
                -1
            }
            else {
                1
            }
        }
        _ => {
            // random magnitude
            let bits = rng.below(64) as u32;
            let r = (rng.next() as i128) & ((1i128 << bits) - 1).max(1);
            let r = if lo < 0 && rng.chance(1, 2) { -r } else { r };
            r.clamp(lo, hi)
        }
    }
}

const STR_ALPHABET: [&str; 22] = [
    "a", "Z", "0", " ", ";", ",", ":", "#", "?", "*", "\t", "\u{e9}", "\u{3a9}", "\u{1F600}", "x", "y", ".", "-", "+", "E", "_",
    "\\",
];

/// A valid literal for a parameter of type `ty` and the value it must deliver.
pub fn gen_lit(ty: Ty, rng: &mut Rng, o: &LitOpts) -> (Lit, Arg, bool) {
    let mut payload_nl = false;
    let (text, arg) = match ty {
        Ty::F32 | Ty::F64 => {
            // exactly representable decimals: m / 2^k * 10^e, small m
            let m = rng.below(4096) as i64 * if rng.chance(1, 3) { -1 } else { 1 };
            let k = rng.below(7) as i32;
            let e = rng.below(4) as i32;
            let base = m as f64 / (1u32 << k) as f64;
            let val = base * 10f64.powi(e);
            let mut txt = format!("{}", base);
            if e > 0 || rng.chance(1, 4) {
                txt.push_str(match rng.below(3) {
                    0 => "E",
                    1 => "e",
                    _ => "E+",
                });
                txt.push_str(&format!("{}", e));
            }
            let a = if ty == Ty::F32 { Arg::F32((val as f32).to_bits()) } else { Arg::F64(val.to_bits()) };
            (txt.into_bytes(), a)
        }
        Ty::Bool => {
            let b = rng.chance(1, 2);
            let t = if b { *rng.pick(&["ON", "on", "1"]) } else { *rng.pick(&["OFF", "off", "0"]) };
            (t.as_bytes().to_vec(), Arg::Bool(b))
        }
        Ty::Str => {
            let q = if rng.chance(1, 2) { b'"' } else { b'\'' };
            let mut s = String::new();
            let n = rng.below(o.max_payload + 1);
            for _ in 0..n {
                if o.payload_newline && rng.chance(1, 5) {
                    s.push('\n');
                    payload_nl = true;
                }
                else if o.wild_payload {
                    if rng.chance(1, 8) {
                        // the other quote character is ordinary payload
                        s.push(if q == b'"' { '\'' } else { '"' });
                    }
                    else {
                        let p: &str = *rng.pick(&STR_ALPHABET[..]);
                        s.push_str(p);
                    }
                }
                else {
                    s.push((b'a' + rng.below(26) as u8) as char);
                }
            }
            if o.payload_newline && !payload_nl && n > 0 && rng.chance(1, 2) {
                s.push('\n');
                payload_nl = true;
            }
            let mut t = vec![q];
            t.extend_from_slice(s.as_bytes());
            t.push(q);
            (t, Arg::Str(s.into_bytes()))
        }
        Ty::Blk => {
            let n = rng.below(o.max_payload + 1);
            let mut p = Vec::with_capacity(n);
            for _ in 0..n {
                let b = if o.wild_payload { rng.byte() } else { b'a' + rng.below(26) as u8 };
                let b = if b == b'\n' && !o.payload_newline { b'x' } else { b };
                p.push(b);
            }
            if o.payload_newline && n > 0 && rng.chance(1, 2) {
                let k = rng.below(n);
                p[k] = b'\n';
            }
            payload_nl = p.contains(&b'\n');
            let ls = format!("{}", n);
            let width = if rng.chance(1, 4) { rng.range(ls.len(), 9) } else { ls.len() };
            let mut t = format!("#{}{:0w$}", width, n, w = width).into_bytes();
            t.extend_from_slice(&p);
            (t, Arg::Blk(p))
        }
        _ => {
            let v = pick_int(ty, rng);
            (int_literal(v, rng), ty.int_arg(v))
        }
    };
    (Lit { text }, arg, payload_nl)
}

/// A literal of a kind that a parameter of type `ty` must refuse with -104.
fn wrong_type_lit(ty: Ty, rng: &mut Rng) -> Lit {
    let text: &[u8] = match ty {
        Ty::Str => *rng.pick(&[&b"12"[..], b"ABC", b"#H1F", b"#13abc"]),
        Ty::Blk => *rng.pick(&[&b"12"[..], b"ABC", b"\"abc\"", b"#Q17"]),
        Ty::F32 | Ty::F64 => *rng.pick(&[&b"\"1.5\""[..], b"ABC", b"#H1F", b"#13abc"]),
        _ => *rng.pick(&[&b"\"12\""[..], b"'1'", b"ABC", b"#13abc"]),
    };
    Lit { text: text.to_vec() }
}

// ---------------------------------------------------------------------------
// generator
// ---------------------------------------------------------------------------

#[derive(Clone, Debug)]
pub struct GenOpts {
    pub lit: LitOpts,
    pub max_units: usize,
    /// include SYST:ERR? / SYST:ERR:COUN? (their answers depend on history)
    pub queue_cmds: bool,
    /// probability (per 16) that a message ends with ';'
    pub trailing_semicolon_16: usize,
    /// use relative addressing when possible with this probability (per 8)
    pub relative_8: usize,
    /// never pick declarations whose handler fails
    pub no_failing: bool,
}

impl Default for GenOpts {
    fn default() -> Self {
        GenOpts {
            lit: LitOpts::default(),
            max_units: 4,
            queue_cmds: false,
            trailing_semicolon_16: 1,
            relative_8: 6,
            no_failing: false,
        }
    }
}

pub struct Gen {
    pub iface: IfaceDesc,
    pub model: Model,
    pub decls: Vec<Decl>,
    /// all spellings per user declaration
    pub spellings: Vec<Vec<Vec<String>>>,
    pub opts: GenOpts,
    /// mnemonic that does not occur anywhere in the interface
    pub unknown: String,
    /// the path the latest non-common unit of `unit_for` left behind, and how the declaration
    /// that wrote it reads each of its mnemonics (long, short)
    last_forms: std::cell::RefCell<(Vec<String>, Vec<(String, String)>)>,
}

pub fn model_of(iface: &IfaceDesc) -> Model {
    let strs: Vec<&str> = iface.decls.iter().map(|d| d.cmd).collect();
    Model::new(&strs, iface.std_cmds, iface.err_cmds)
}

impl Gen {
    pub fn new(iface: &IfaceDesc, opts: GenOpts) -> Gen {
        let model = model_of(iface);
        let decls: Vec<Decl> = iface.decls.iter().map(|d| parse_decl(d.cmd)).collect();
        let spellings = decls.iter().map(|d| d.spellings()).collect();
        // find an unused mnemonic
        let mut unknown = "ZZQ".to_string();
        loop {
            let used = model.decls.iter().any(|(d, _)| {
                d.nodes.iter().any(|n| n.long.eq_ignore_ascii_case(&unknown) || n.short.eq_ignore_ascii_case(&unknown))
            });
            if !used {
                break;
            }
            unknown.push('Q');
        }
        Gen { iface: *iface, model, decls, spellings, opts, unknown, last_forms: Default::default() }
    }

    fn mnems_for(&self, di: usize, sp: &[String], skip: usize) -> Vec<Mnem> {
        // Recover, for each spelled mnemonic, both forms of the node it spells
        // (proper alignment: skipped nodes must be optional, all nodes consumed).
        fn align(nodes: &[crate::spec::DNode], sp: &[String], at: usize, acc: &mut Vec<usize>) -> bool {
            match (nodes.get(at), sp.first()) {
                (None, None) => true,
                (None, Some(_)) => false,
                (Some(n), m) => {
                    if let Some(m) = m {
                        if n.long == *m || n.short == *m {
                            acc.push(at);
                            if align(nodes, &sp[1..], at + 1, acc) {
                                return true;
                            }
                            acc.pop();
                        }
                    }
                    n.optional && align(nodes, sp, at + 1, acc)
                }
            }
        }
        let d = &self.decls[di];
        let mut idx = Vec::new();
        let ok = align(&d.nodes, sp, 0, &mut idx);
        assert!(ok, "spelling does not align with its own declaration");
        let mut out: Vec<Mnem> = sp
            .iter()
            .zip(idx)
            .map(|(m, ni)| {
                let n = &d.nodes[ni];
                Mnem { long: n.long.clone(), short: n.short.clone(), use_short: *m == n.short && n.short != n.long }
            })
            .collect();
        out.drain(..skip);
        out
    }

    /// The expected events of a correct invocation of declaration `di` with `args`.
    pub fn expect_call(&self, di: usize, args: Vec<Arg>) -> Vec<Expect> {
        let dd = &self.iface.decls[di];
        let h = di as u16;
        let seed = crate::ev::ret_seed(h, &args);
        let mut v = vec![Expect::Call { h, args, ok: dd.fails.is_none() }];
        match dd.fails {
            Some(f) => {
                let e = f.error();
                let text: &str = e.into();
                v.push(Expect::Err(ErrSpec::Exact { num: e.number(), text: text.to_string() }));
            }
            None => {
                if self.decls[di].query {
                    v.push(Expect::Resp(dd.ret.leaves(seed)));
                }
            }
        }
        v
    }

    /// One unit addressed to user declaration `di`, valid unless `fault` is given.
    /// `path` is the current spelled path; it is updated.
    pub fn unit_for(
        &self, di: usize, path: &mut Vec<String>, fault: Option<Fault>, force_abs: bool, lit: &LitOpts, rng: &mut Rng,
    ) -> UnitAst {
        let dd = &self.iface.decls[di];
        let d = &self.decls[di];
        let sps = &self.spellings[di];
        // prefer a spelling that extends the current path when relative addressing is wanted
        let want_rel = !force_abs && !path.is_empty() && rng.below(8) < self.opts.relative_8;
        let mut sp: &Vec<String> = rng.pick(sps);
        // A unit is written relative to the path only if this declaration reads every path
        // mnemonic as a form of the same declared node as the unit that wrote it.  With sibling
        // nodes that share a spelling (`VOLT` / `VOLTage`) the spelled path alone would also
        // admit other readings; those messages are left out (both readings of "the path of the
        // preceding header" agree on everything that is generated).
        let known_forms: Option<Vec<(String, String)>> = {
            let l = self.last_forms.borrow();
            if l.0 == *path {
                Some(l.1.clone())
            }
            else {
                None
            }
        };
        let agrees = |s: &Vec<String>| -> bool {
            match &known_forms {
                None => false,
                Some(f) => {
                    let m = self.mnems_for(di, s, 0);
                    m.len() > f.len() && m[..f.len()].iter().zip(f).all(|(a, b)| a.long == b.0 && a.short == b.1)
                }
            }
        };
        if want_rel {
            let cands: Vec<&Vec<String>> = sps
                .iter()
                .filter(|s| s.len() > path.len() && s.iter().zip(path.iter()).all(|(a, b)| a.eq_ignore_ascii_case(b)) && agrees(s))
                .collect();
            if !cands.is_empty() {
                sp = *rng.pick(&cands);
            }
        }
        let common = d.is_common();
        let extends = !common
            && sp.len() > path.len()
            && sp.iter().zip(path.iter()).all(|(a, b)| a.eq_ignore_ascii_case(b))
            && agrees(sp);
        let (abs, skip) = if common {
            (false, 0)
        }
        else if force_abs {
            (true, 0)
        }
        else if path.is_empty() {
            (rng.chance(1, 3), 0)
        }
        else if extends && rng.below(8) < self.opts.relative_8.max(1) {
            (false, path.len())
        }
        else {
            (true, 0)
        };
        let mut mnems = self.mnems_for(di, sp, 0);
        if !common {
            *path = sp[..sp.len() - 1].to_vec();
            *self.last_forms.borrow_mut() = (path.clone(), mnems[..mnems.len() - 1].iter().map(|m| (m.long.clone(), m.short.clone())).collect());
        }
        let rel_prefix: Vec<Mnem> = mnems.drain(..skip).collect();

        // parameters
        let mut lits = Vec::new();
        let mut args = Vec::new();
        let mut payload_newline = false;
        for ty in dd.params {
            let (l, a, nl) = gen_lit(*ty, rng, lit);
            payload_newline |= nl;
            lits.push(l);
            args.push(a);
        }
        let mut u = UnitAst {
            abs,
            mnems,
            rel_prefix,
            raw_header: None,
            query: d.query,
            lits,
            bad_sep_at: None,
            expects: vec![],
            fault,
            target: Some(Target::User(di as u16)),
            payload_newline,
        };
        match fault {
            None => u.expects = self.expect_call(di, args),
            Some(f) => {
                u.expects = vec![Expect::Err(ErrSpec::Any)];
                match f {
                    Fault::BadChar => {
                        // an invalid character inside the header
                        let mut raw = Vec::new();
                        u.render_header(&mut raw);
                        let bad = *rng.pick(&[b'$', b'!', b'%', b'(', b'~', 0x80u8]);
                        let pos = if raw.is_empty() { 0 } else { rng.range(1, raw.len()) };
                        raw.insert(pos, bad);
                        u.raw_header = Some(raw);
                    }
                    Fault::BadSep => {
                        // two parameters separated by a blank instead of a comma
                        let l1 = Lit { text: b"1".to_vec() };
                        let l2 = Lit { text: b"2".to_vec() };
                        u.lits = vec![l1, l2];
                        u.bad_sep_at = Some(0);
                        u.payload_newline = false;
                    }
                    Fault::BadLiteral => {
                        let bad: &[u8] = *rng.pick(&[&b"1E"[..], b"1E+", b"1e-", b"--1", b"1..2", b"1e1e1", b"+", b"-", b"@", b"$1", b"1E,2", b"-.5E", b"1EV", b".", b"1.5.2"]);
                        let mut lits = vec![Lit { text: bad.to_vec() }];
                        if rng.chance(1, 2) {
                            lits.insert(0, Lit { text: b"1".to_vec() });
                        }
                        u.lits = lits;
                        u.payload_newline = false;
                    }
                    Fault::UnknownMnem => {
                        let k = rng.below(u.mnems.len().max(1) + 1);
                        let m = Mnem { long: self.unknown.clone(), short: self.unknown.clone(), use_short: false };
                        if k >= u.mnems.len() {
                            u.mnems.push(m);
                        }
                        else {
                            u.mnems[k] = m;
                        }
                        if common {
                            u.mnems = vec![Mnem {
                                long: format!("*{}", self.unknown),
                                short: format!("*{}", self.unknown),
                                use_short: false,
                            }];
                        }
                        u.expects = vec![Expect::Err(ErrSpec::Num(-113))];
                    }
                    Fault::WrongKind => {
                        u.query = !u.query;
                        u.expects = vec![Expect::Err(ErrSpec::Num(-113))];
                    }
                    Fault::TooFew => {
                        u.lits.pop();
                    }
                    Fault::TooMany => {
                        u.lits.push(Lit { text: b"1".to_vec() });
                    }
                    Fault::OverMax => {
                        while u.lits.len() < 11 + rng.below(4) {
                            u.lits.push(Lit { text: b"1".to_vec() });
                        }
                    }
                    Fault::WrongType => {
                        let ks: Vec<usize> = (0..dd.params.len()).filter(|k| dd.params[*k] != Ty::Bool).collect();
                        let k = *rng.pick(&ks);
                        u.lits[k] = wrong_type_lit(dd.params[k], rng);
                        u.expects = vec![Expect::Err(ErrSpec::Num(-104))];
                    }
                    Fault::OutOfRange => {
                        let ks: Vec<usize> =
                            (0..dd.params.len()).filter(|k| dd.params[*k].int_range().is_some()).collect();
                        let k = *rng.pick(&ks);
                        let (lo, hi) = dd.params[k].int_range().unwrap();
                        let v = if rng.chance(1, 2) { hi + 1 + rng.below(3) as i128 } else { lo - 1 - rng.below(3) as i128 };
                        u.lits[k] = Lit { text: format!("{}", v).into_bytes() };
                        u.expects = vec![Expect::Err(ErrSpec::Num(-120))];
                    }
                    Fault::NotBool => {
                        let ks: Vec<usize> = (0..dd.params.len()).filter(|k| dd.params[*k] == Ty::Bool).collect();
                        let k = *rng.pick(&ks);
                        u.lits[k] = Lit { text: rng.pick(&[&b"2"[..], b"MAYBE", b"10", b"-1"]).to_vec() };
                        u.expects = vec![Expect::Err(ErrSpec::Num(-224))];
                    }
                    Fault::Handler => {
                        // the declaration itself fails; expectation is the normal one
                        u.expects = self.expect_call(di, args.clone());
                    }
                    Fault::InnerNode => {
                        // drop the last mnemonic: the header now names the parent level
                        if u.mnems.len() < 2 {
                            // a relative unit with one mnemonic: write the full spelling instead
                            u.abs = true;
                            u.mnems = self.mnems_for(di, sp, 0);
                        }
                        u.mnems.pop();
                        u.lits.clear();
                        u.payload_newline = false;
                        if !path.is_empty() {
                            path.pop();
                        }
                        u.expects = vec![Expect::Err(ErrSpec::Num(-113))];
                    }
                }
            }
        }
        u
    }

    /// Is `fault` applicable to declaration `di`?
    pub fn fault_applicable(&self, di: usize, fault: Fault) -> bool {
        let dd = &self.iface.decls[di];
        let d = &self.decls[di];
        match fault {
            Fault::BadChar | Fault::UnknownMnem | Fault::TooMany | Fault::OverMax => true,
            Fault::BadSep | Fault::BadLiteral => true,
            Fault::WrongKind => {
                // the other kind must not be declared for any spelling of this node
                let sps = &self.spellings[di];
                sps.iter().all(|sp| {
                    let m: Vec<&str> = sp.iter().map(|s| s.as_str()).collect();
                    self.model.resolve(&m, !d.query).is_none()
                })
            }
            Fault::TooFew => !dd.params.is_empty(),
            Fault::WrongType => dd.params.iter().any(|t| *t != Ty::Bool),
            Fault::OutOfRange => dd.params.iter().any(|t| t.int_range().is_some()),
            Fault::NotBool => dd.params.iter().any(|t| *t == Ty::Bool),
            Fault::Handler => dd.fails.is_some(),
            // every spelling minus its last mnemonic must be non-empty and must not spell a
            // declaration of this kind (the unit is addressed absolutely or from the root only
            // when at least one mnemonic remains to be written)
            Fault::InnerNode => {
                !d.is_common()
                    && self.spellings[di].iter().all(|sp| {
                        sp.len() >= 2 && {
                            let m: Vec<&str> = sp[..sp.len() - 1].iter().map(|s| s.as_str()).collect();
                            self.model.resolve(&m, d.query).is_none()
                        }
                    })
            }
        }
    }

    fn pick_decl(&self, rng: &mut Rng, want_failing: Option<bool>) -> usize {
        let n = self.iface.decls.len();
        for _ in 0..64 {
            let di = rng.below(n);
            let f = self.iface.decls[di].fails.is_some();
            match want_failing {
                Some(w) if w != f => continue,
                None if self.opts.no_failing && f => continue,
                _ => return di,
            }
        }
        (0..n).find(|di| want_failing.map(|w| self.iface.decls[*di].fails.is_some() == w).unwrap_or(true)).unwrap_or(0)
    }

    /// A valid message of 1..=max_units units (handlers that fail are not picked).
    pub fn valid_msg(&self, rng: &mut Rng) -> MsgAst {
        let k = rng.range(1, self.opts.max_units.max(1));
        let mut path = Vec::new();
        let mut units = Vec::new();
        for _ in 0..k {
            let di = self.pick_decl(rng, Some(false));
            units.push(self.unit_for(di, &mut path, None, false, &self.opts.lit, rng));
        }
        MsgAst { units, trailing_semicolon: rng.below(16) < self.opts.trailing_semicolon_16 }
    }

    /// A unit written relative to the non-empty `path` that resolves to nothing
    /// there (expected: exactly one -113, no call).
    pub fn undefined_rel_unit(&self, path: &[String], rng: &mut Rng) -> Option<UnitAst> {
        if path.is_empty() {
            return None;
        }
        for _ in 0..20 {
            let di = rng.below(self.iface.decls.len());
            if self.decls[di].is_common() {
                continue;
            }
            let sp = rng.pick(&self.spellings[di]).clone();
            let mut full: Vec<&str> = path.iter().map(|s| s.as_str()).collect();
            full.extend(sp.iter().map(|s| s.as_str()));
            let query = rng.chance(1, 2);
            if self.model.resolve(&full, query).is_some() {
                continue;
            }
            let mnems = self.mnems_for(di, &sp, 0);
            return Some(UnitAst {
                abs: false,
                mnems,
                rel_prefix: vec![],
                raw_header: None,
                query,
                lits: vec![],
                bad_sep_at: None,
                expects: vec![Expect::Err(ErrSpec::Num(-113))],
                fault: Some(Fault::UnknownMnem),
                target: None,
                payload_newline: false,
            });
        }
        None
    }

    /// A message with exactly one faulty unit at the given position class
    /// (0 first, 1 middle, 2 last).  Units after the fault are absolute.
    pub fn faulty_msg(&self, fault: Fault, pos_class: u8, rng: &mut Rng) -> Option<MsgAst> {
        let cands: Vec<usize> = (0..self.iface.decls.len())
            .filter(|di| self.fault_applicable(*di, fault))
            .filter(|di| fault == Fault::Handler || self.iface.decls[*di].fails.is_none())
            .collect();
        if cands.is_empty() {
            return None;
        }
        let fdi = *rng.pick(&cands);
        let (before, after) = match pos_class {
            0 => (0, rng.below(3)),
            1 => (rng.range(1, 2), rng.range(1, 2)),
            _ => (rng.below(3), 0),
        };
        // a faulty message never carries a newline inside a payload (C06's premise)
        let lit = LitOpts { payload_newline: false, ..self.opts.lit };
        let lit = &lit;
        let mut path = Vec::new();
        let mut units = Vec::new();
        for _ in 0..before {
            let di = self.pick_decl(rng, Some(false));
            units.push(self.unit_for(di, &mut path, None, false, lit, rng));
        }
        // the faulty unit is addressed absolutely unless it is the first one
        let f_abs = !units.is_empty() && rng.chance(1, 2);
        units.push(self.unit_for(fdi, &mut path, Some(fault), f_abs, lit, rng));
        for _ in 0..after {
            let di = self.pick_decl(rng, Some(false));
            // after a syntax-level fault nothing of the message runs, so "all" is only well
            // defined with absolute headers; after an execution-level fault the header of
            // the faulty unit has set the path as usual and relative units may follow
            units.push(self.unit_for(di, &mut path, None, fault.parse_level(), lit, rng));
        }
        Some(MsgAst { units, trailing_semicolon: false })
    }
}

impl UnitAst {
    /// header text in canonical style (used to build raw headers for faults)
    pub fn render_header(&self, out: &mut Vec<u8>) {
        if self.abs {
            out.push(b':');
        }
        for (i, m) in self.mnems.iter().enumerate() {
            if i > 0 {
                out.push(b':');
            }
            let s = if m.use_short { &m.short } else { &m.long };
            out.extend_from_slice(s.as_bytes());
        }
    }
}

pub fn ret_ty_leaves(ret: RetTy, seed: u64) -> Vec<Leaf> {
    ret.leaves(seed)
}

pub fn fail_spec(f: Fail) -> ErrSpec {
    let e = f.error();
    let text: &str = e.into();
    ErrSpec::Exact { num: e.number(), text: text.to_string() }
}
