//! Response zoo (C04): queries returning every supported response type, with
//! values scripted by the harness.

use std::cell::RefCell;

use crate::drive::NewDev;
use crate::ev::{self, Leaf};
use microscpi::{Arbitrary, Characters, Error};

#[derive(Clone, Debug, Default)]
pub struct Script {
    pub u8: u8,
    pub i8: i8,
    pub u16: u16,
    pub i16: i16,
    pub u32: u32,
    pub i32: i32,
    pub u64: u64,
    pub i64: i64,
    pub usize: usize,
    pub isize: isize,
    pub f32: f32,
    pub f64: f64,
    pub bool: bool,
    pub string: String,
    pub bytes: Vec<u8>,
    pub chars: String,
    pub err: usize,
    pub ints: Vec<i32>,
    pub floats: Vec<f64>,
    pub shorts: Vec<u16>,
}

pub const ERR_TABLE: [Error; 6] = [
    Error::UndefinedHeader,
    Error::Custom(42, "custom text"),
    Error::Custom(-7, "with \"quotes\" inside"),
    Error::QueueOverflow,
    Error::Custom(0, ""),
    Error::Custom(i16::MIN, "minimum, with comma; and semicolon"),
];

thread_local! {
    static SCRIPT: RefCell<Script> = RefCell::new(Script::default());
}

pub fn set_script(s: &Script) {
    crate::alloc::exempt(|| SCRIPT.with(|c| *c.borrow_mut() = s.clone()));
}

pub struct RDev {
    pub s: Script,
}

impl NewDev for RDev {
    fn new_dev() -> Self {
        RDev { s: SCRIPT.with(|c| c.borrow().clone()) }
    }
}

impl microscpi::ErrorHandler for RDev {
    fn handle_error(&mut self, e: Error) {
        ev::record_error(e)
    }
}

fn hstr(s: &str) -> heapless::String<64> {
    let mut h = heapless::String::new();
    for c in s.chars() {
        if h.push(c).is_err() {
            break;
        }
    }
    h
}

macro_rules! rec {
    ($h:expr) => {{
        ev::push(ev::Ev::Enter { h: $h, args: Vec::new() });
        ev::push(ev::Ev::Exit { h: $h, ok: true });
    }};
}

#[microscpi::interface]
impl RDev {
    #[scpi(cmd = "R:U8?")]
    fn r_u8(&mut self) -> Result<u8, Error> {
        rec!(0);
        Ok(self.s.u8)
    }
    #[scpi(cmd = "R:I8?")]
    fn r_i8(&mut self) -> Result<i8, Error> {
        rec!(1);
        Ok(self.s.i8)
    }
    #[scpi(cmd = "R:U16?")]
    fn r_u16(&mut self) -> Result<u16, Error> {
        rec!(2);
        Ok(self.s.u16)
    }
    #[scpi(cmd = "R:I16?")]
    fn r_i16(&mut self) -> Result<i16, Error> {
        rec!(3);
        Ok(self.s.i16)
    }
    #[scpi(cmd = "R:U32?")]
    fn r_u32(&mut self) -> Result<u32, Error> {
        rec!(4);
        Ok(self.s.u32)
    }
    #[scpi(cmd = "R:I32?")]
    fn r_i32(&mut self) -> Result<i32, Error> {
        rec!(5);
        Ok(self.s.i32)
    }
    #[scpi(cmd = "R:U64?")]
    async fn r_u64(&mut self) -> Result<u64, Error> {
        rec!(6);
        crate::exec::suspend().await;
        Ok(self.s.u64)
    }
    #[scpi(cmd = "R:I64?")]
    fn r_i64(&mut self) -> Result<i64, Error> {
        rec!(7);
        Ok(self.s.i64)
    }
    #[scpi(cmd = "R:USIZE?")]
    fn r_usize(&mut self) -> Result<usize, Error> {
        rec!(8);
        Ok(self.s.usize)
    }
    #[scpi(cmd = "R:ISIZE?")]
    fn r_isize(&mut self) -> Result<isize, Error> {
        rec!(9);
        Ok(self.s.isize)
    }
    #[scpi(cmd = "R:F32?")]
    fn r_f32(&mut self) -> Result<f32, Error> {
        rec!(10);
        Ok(self.s.f32)
    }
    #[scpi(cmd = "R:F64?")]
    async fn r_f64(&mut self) -> Result<f64, Error> {
        rec!(11);
        crate::exec::suspend().await;
        Ok(self.s.f64)
    }
    #[scpi(cmd = "R:BOOL?")]
    fn r_bool(&mut self) -> Result<bool, Error> {
        rec!(12);
        Ok(self.s.bool)
    }
    #[scpi(cmd = "R:STR?")]
    fn r_str(&mut self) -> Result<&str, Error> {
        rec!(13);
        Ok(&self.s.string)
    }
    #[scpi(cmd = "R:HSTR?")]
    fn r_hstr(&mut self) -> Result<heapless::String<64>, Error> {
        rec!(14);
        Ok(hstr(&self.s.string))
    }
    #[scpi(cmd = "R:CHAR?")]
    fn r_char(&mut self) -> Result<Characters<'_>, Error> {
        rec!(15);
        Ok(Characters(&self.s.chars))
    }
    #[scpi(cmd = "R:ARB?")]
    fn r_arb(&mut self) -> Result<Arbitrary<'_>, Error> {
        rec!(16);
        Ok(Arbitrary(&self.s.bytes))
    }
    #[scpi(cmd = "R:ERR?")]
    fn r_err(&mut self) -> Result<Error, Error> {
        rec!(17);
        Ok(ERR_TABLE[self.s.err % ERR_TABLE.len()])
    }
    #[scpi(cmd = "R:T2?")]
    fn r_t2(&mut self) -> Result<(i32, &str), Error> {
        rec!(18);
        Ok((self.s.i32, &self.s.string))
    }
    #[scpi(cmd = "R:T3?")]
    fn r_t3(&mut self) -> Result<(u8, bool, f64), Error> {
        rec!(19);
        Ok((self.s.u8, self.s.bool, self.s.f64))
    }
    #[scpi(cmd = "R:T4?")]
    fn r_t4(&mut self) -> Result<(i8, u16, &str, f32), Error> {
        rec!(20);
        Ok((self.s.i8, self.s.u16, &self.s.string, self.s.f32))
    }
    #[scpi(cmd = "R:NEST?")]
    fn r_nest(&mut self) -> Result<((u8, bool), (f32, &str)), Error> {
        rec!(21);
        Ok(((self.s.u8, self.s.bool), (self.s.f32, &self.s.string)))
    }
    #[scpi(cmd = "R:SLICE?")]
    fn r_slice(&mut self) -> Result<&[i32], Error> {
        rec!(22);
        Ok(&self.s.ints)
    }
    #[scpi(cmd = "R:SLICEF?")]
    fn r_slicef(&mut self) -> Result<&[f64], Error> {
        rec!(23);
        Ok(&self.s.floats)
    }
    #[scpi(cmd = "R:HVEC?")]
    fn r_hvec(&mut self) -> Result<heapless::Vec<u16, 8>, Error> {
        rec!(24);
        let mut v = heapless::Vec::new();
        for x in self.s.shorts.iter().take(8) {
            let _ = v.push(*x);
        }
        Ok(v)
    }
    #[scpi(cmd = "R:HVECT?")]
    fn r_hvect(&mut self) -> Result<heapless::Vec<(i8, bool), 4>, Error> {
        rec!(25);
        let mut v = heapless::Vec::new();
        for x in self.s.ints.iter().take(4) {
            let _ = v.push((*x as i8, *x & 1 == 1));
        }
        Ok(v)
    }
    #[scpi(cmd = "R:UNIT?")]
    fn r_unit(&mut self) -> Result<(), Error> {
        rec!(26);
        Ok(())
    }
    #[scpi(cmd = "R:ARG?")]
    fn r_arg(&mut self, v: u8) -> Result<u8, Error> {
        rec!(27);
        Ok(v)
    }
    #[scpi(cmd = "R:FAIL?")]
    fn r_fail(&mut self) -> Result<u32, Error> {
        ev::push(ev::Ev::Enter { h: 28, args: Vec::new() });
        ev::push(ev::Ev::Exit { h: 28, ok: false });
        Err(Error::ExecutionError)
    }
    #[scpi(cmd = "C:SET")]
    fn c_set(&mut self, _v: u8) -> Result<(), Error> {
        rec!(29);
        Ok(())
    }
    #[scpi(cmd = "C:NOP")]
    async fn c_nop(&mut self) -> Result<(), Error> {
        rec!(30);
        Ok(())
    }
}

/// Is handler `h` a query that succeeds (and therefore owes a response)?
pub fn is_query(h: u16) -> bool {
    h <= 27
}

fn hstr_leaf(s: &str) -> Leaf {
    Leaf::Str(hstr(s).as_bytes().to_vec())
}

fn err_leaves(e: Error) -> Vec<Leaf> {
    let t: &str = e.into();
    vec![Leaf::Int(e.number() as i128), Leaf::Str(t.as_bytes().to_vec())]
}

/// Every value-returning query of the zoo with the leaves its answer must decode to.
pub fn queries() -> Vec<(&'static str, fn(&Script) -> Vec<Leaf>)> {
    vec![
        ("R:U8?", |s| vec![Leaf::Int(s.u8 as i128)]),
        ("R:I8?", |s| vec![Leaf::Int(s.i8 as i128)]),
        ("R:U16?", |s| vec![Leaf::Int(s.u16 as i128)]),
        ("R:I16?", |s| vec![Leaf::Int(s.i16 as i128)]),
        ("R:U32?", |s| vec![Leaf::Int(s.u32 as i128)]),
        ("R:I32?", |s| vec![Leaf::Int(s.i32 as i128)]),
        ("R:U64?", |s| vec![Leaf::Int(s.u64 as i128)]),
        ("R:I64?", |s| vec![Leaf::Int(s.i64 as i128)]),
        ("R:USIZE?", |s| vec![Leaf::Int(s.usize as i128)]),
        ("R:ISIZE?", |s| vec![Leaf::Int(s.isize as i128)]),
        ("R:F32?", |s| vec![Leaf::F32(s.f32.to_bits())]),
        ("R:F64?", |s| vec![Leaf::F64(s.f64.to_bits())]),
        ("R:BOOL?", |s| vec![Leaf::Bool(s.bool)]),
        ("R:STR?", |s| vec![Leaf::Str(s.string.as_bytes().to_vec())]),
        ("R:HSTR?", |s| vec![hstr_leaf(&s.string)]),
        ("R:CHAR?", |s| vec![Leaf::Chars(s.chars.as_bytes().to_vec())]),
        ("R:ARB?", |s| vec![Leaf::Blk(s.bytes.clone())]),
        ("R:ERR?", |s| err_leaves(ERR_TABLE[s.err % ERR_TABLE.len()])),
        ("R:T2?", |s| vec![Leaf::Int(s.i32 as i128), Leaf::Str(s.string.as_bytes().to_vec())]),
        ("R:T3?", |s| vec![Leaf::Int(s.u8 as i128), Leaf::Bool(s.bool), Leaf::F64(s.f64.to_bits())]),
        ("R:T4?", |s| vec![Leaf::Int(s.i8 as i128), Leaf::Int(s.u16 as i128), Leaf::Str(s.string.as_bytes().to_vec()), Leaf::F32(s.f32.to_bits())]),
        ("R:NEST?", |s| vec![Leaf::Int(s.u8 as i128), Leaf::Bool(s.bool), Leaf::F32(s.f32.to_bits()), Leaf::Str(s.string.as_bytes().to_vec())]),
        ("R:SLICE?", |s| s.ints.iter().map(|x| Leaf::Int(*x as i128)).collect()),
        ("R:SLICEF?", |s| s.floats.iter().map(|x| Leaf::F64(x.to_bits())).collect()),
        ("R:HVEC?", |s| s.shorts.iter().take(8).map(|x| Leaf::Int(*x as i128)).collect()),
        ("R:HVECT?", |s| s.ints.iter().take(4).flat_map(|x| vec![Leaf::Int((*x as i8) as i128), Leaf::Bool(*x & 1 == 1)]).collect()),
        ("R:UNIT?", |_| vec![]),
    ]
}

#[cfg(feature = "std")]
pub mod with_std {
    use super::*;

    pub struct SDev {
        pub s: Script,
    }
    impl NewDev for SDev {
        fn new_dev() -> Self {
            SDev { s: SCRIPT.with(|c| c.borrow().clone()) }
        }
    }
    impl microscpi::ErrorHandler for SDev {
        fn handle_error(&mut self, e: Error) {
            ev::record_error(e)
        }
    }
    #[microscpi::interface]
    impl SDev {
        #[scpi(cmd = "R:SSTR?")]
        fn r_sstr(&mut self) -> Result<String, Error> {
            rec!(0);
            Ok(self.s.string.clone())
        }
    }
}
