//! Counting global allocator with a per-thread observation window (C13).
//!
//! The harness' own recorders allocate (event vectors); they do so inside
//! `exempt(..)`, so that only allocations made by the library under test
//! between `window_open()` and `window_close()` are counted.

use std::alloc::{GlobalAlloc, Layout, System};
use std::cell::{Cell, RefCell};

pub struct CountingAlloc;

thread_local! {
    static WINDOW: Cell<u32> = const { Cell::new(0) };
    static EXEMPT: Cell<u32> = const { Cell::new(0) };
    static COUNT: Cell<u64> = const { Cell::new(0) };
    static BYTES: Cell<u64> = const { Cell::new(0) };
    static TRACE: Cell<bool> = const { Cell::new(false) };
    static FIRST_BT: RefCell<Option<String>> = const { RefCell::new(None) };
}

#[inline]
fn note(size: usize) {
    // try_with: the allocator may be called during thread teardown.
    let _ = WINDOW.try_with(|w| {
        if w.get() > 0 && EXEMPT.with(|e| e.get()) == 0 {
            COUNT.with(|c| c.set(c.get() + 1));
            BYTES.with(|b| b.set(b.get() + size as u64));
            if TRACE.with(|t| t.get()) {
                EXEMPT.with(|e| e.set(e.get() + 1));
                let have = FIRST_BT.with(|f| f.borrow().is_some());
                if !have {
                    let bt = std::backtrace::Backtrace::force_capture().to_string();
                    FIRST_BT.with(|f| *f.borrow_mut() = Some(bt));
                }
                EXEMPT.with(|e| e.set(e.get() - 1));
            }
        }
    });
}

unsafe impl GlobalAlloc for CountingAlloc {
    unsafe fn alloc(&self, layout: Layout) -> *mut u8 {
        note(layout.size());
        System.alloc(layout)
    }
    unsafe fn dealloc(&self, ptr: *mut u8, layout: Layout) {
        System.dealloc(ptr, layout)
    }
    unsafe fn alloc_zeroed(&self, layout: Layout) -> *mut u8 {
        note(layout.size());
        System.alloc_zeroed(layout)
    }
    unsafe fn realloc(&self, ptr: *mut u8, layout: Layout, new_size: usize) -> *mut u8 {
        note(new_size);
        System.realloc(ptr, layout, new_size)
    }
}

pub fn window_open() {
    WINDOW.with(|w| w.set(w.get() + 1));
}
pub fn window_close() {
    WINDOW.with(|w| w.set(w.get().saturating_sub(1)));
}
pub fn window_reset() {
    WINDOW.with(|w| w.set(0));
    EXEMPT.with(|w| w.set(0));
}
/// Number of allocations / bytes counted so far on this thread.
pub fn counted() -> (u64, u64) {
    (COUNT.with(|c| c.get()), BYTES.with(|c| c.get()))
}
pub fn set_trace(on: bool) {
    TRACE.with(|t| t.set(on));
}
pub fn take_first_backtrace() -> Option<String> {
    exempt(|| FIRST_BT.with(|f| f.borrow_mut().take()))
}

/// Runs harness code whose allocations must not be attributed to the library.
#[inline]
pub fn exempt<R>(f: impl FnOnce() -> R) -> R {
    EXEMPT.with(|e| e.set(e.get() + 1));
    let r = f();
    EXEMPT.with(|e| e.set(e.get() - 1));
    r
}
