//! Normalisation of raw event logs and the generic oracle "log matches the
//! generator-side expectation".

use crate::ev::{esc, Arg, Ev};
use crate::spec::{decode_response, match_leaves};
use crate::wl::{ErrSpec, Expect};

#[derive(Clone, Debug, PartialEq)]
pub enum Sem {
    Call { h: u16, args: Vec<Arg>, ok: bool },
    Out(Vec<u8>),
    Err { num: i16, text: String, dbg: String },
}

impl Sem {
    pub fn show(&self) -> String {
        match self {
            Sem::Call { h, args, ok } => {
                format!("Call(h{}; {}; {})", h, args.iter().map(|a| a.show()).collect::<Vec<_>>().join(", "), if *ok { "ok" } else { "err" })
            }
            Sem::Out(b) => format!("Out(\"{}\")", esc(b)),
            Sem::Err { num, text, .. } => format!("Err({}, \"{}\")", num, esc(text.as_bytes())),
        }
    }
}

pub fn show_sem(s: &[Sem]) -> Vec<String> {
    s.iter().map(|x| x.show()).collect()
}

/// Interleaved semantic log: handler calls, output bytes (adjacent writes
/// merged; whichever writer kind was used), errors.
pub fn sem(log: &[Ev]) -> Vec<Sem> {
    let mut out: Vec<Sem> = Vec::new();
    let mut open: Option<(u16, Vec<Arg>)> = None;
    for e in log {
        match e {
            Ev::Enter { h, args } => open = Some((*h, args.clone())),
            Ev::Exit { h, ok } => {
                let (h0, args) = open.take().unwrap_or((*h, vec![]));
                out.push(Sem::Call { h: h0, args, ok: *ok });
            }
            Ev::Error { num, text, dbg } => out.push(Sem::Err { num: *num, text: text.clone(), dbg: dbg.clone() }),
            Ev::Write(b) | Ev::AWrite(b) | Ev::Out(b) => {
                if b.is_empty() {
                    continue;
                }
                if let Some(Sem::Out(prev)) = out.last_mut() {
                    prev.extend_from_slice(b);
                }
                else {
                    out.push(Sem::Out(b.clone()));
                }
            }
            _ => {}
        }
    }
    if let Some((h, args)) = open {
        // handler entered but never left (only possible if it was cancelled)
        out.push(Sem::Call { h, args, ok: false });
    }
    out
}

#[derive(Clone, Debug, PartialEq, Default)]
pub struct Streams {
    /// calls and errors in their relative order
    pub ce: Vec<Sem>,
    /// all output bytes concatenated
    pub out: Vec<u8>,
}

pub fn streams(log: &[Ev]) -> Streams {
    let mut s = Streams::default();
    for x in sem(log) {
        match x {
            Sem::Out(b) => s.out.extend_from_slice(&b),
            other => s.ce.push(other),
        }
    }
    s
}

impl Streams {
    pub fn show(&self) -> Vec<String> {
        let mut v = show_sem(&self.ce);
        v.push(format!("OUT \"{}\"", esc(&self.out)));
        v
    }
    pub fn calls(&self) -> usize {
        self.ce.iter().filter(|s| matches!(s, Sem::Call { .. })).count()
    }
    pub fn errs(&self) -> usize {
        self.ce.iter().filter(|s| matches!(s, Sem::Err { .. })).count()
    }
}

fn err_matches(spec: &ErrSpec, num: i16, text: &str) -> bool {
    match spec {
        ErrSpec::Any => true,
        // the statements quote the description of -113 ("Undefined header")
        ErrSpec::Num(n) => *n == num && (*n != -113 || text == "Undefined header"),
        ErrSpec::Exact { num: n, text: t } => *n == num && t == text,
    }
}

/// Does the execution (as streams) match the expectation?  Calls and errors
/// are compared in order; output is decoded response by response.
pub fn check_streams(expects: &[Expect], got: &Streams) -> Result<(), String> {
    let want_ce: Vec<&Expect> = expects.iter().filter(|e| !matches!(e, Expect::Resp(_))).collect();
    let mut i = 0;
    for w in &want_ce {
        let g = match got.ce.get(i) {
            Some(g) => g,
            None => return Err(format!("missing event #{}: expected {:?}", i, w)),
        };
        let ok = match (w, g) {
            (Expect::Call { h, args, ok }, Sem::Call { h: gh, args: gargs, ok: gok }) => h == gh && args == gargs && ok == gok,
            (Expect::Err(spec), Sem::Err { num, text, .. }) => err_matches(spec, *num, text),
            _ => false,
        };
        if !ok {
            return Err(format!("event #{}: expected {:?}, observed {}", i, w, g.show()));
        }
        i += 1;
    }
    if got.ce.len() > i {
        return Err(format!("unexpected extra event #{}: {}", i, got.ce[i].show()));
    }
    // output
    let mut pos = 0usize;
    for (k, e) in expects.iter().filter(|e| matches!(e, Expect::Resp(_))).enumerate() {
        if let Expect::Resp(leaves) = e {
            if pos >= got.out.len() {
                return Err(format!("response #{} missing (output ends after {} bytes)", k, pos));
            }
            let (toks, n) =
                decode_response(&got.out[pos..]).map_err(|m| format!("response #{} at byte {} does not decode: {}", k, pos, m))?;
            match_leaves(&toks, leaves).map_err(|m| format!("response #{}: {}", k, m))?;
            pos += n;
        }
    }
    if pos != got.out.len() {
        return Err(format!("unexpected output after the last expected response: \"{}\"", esc(&got.out[pos..])));
    }
    Ok(())
}

/// Ordering clause (C02/C04), judged on the raw log of a `run` execution with
/// the recording writer: after a query handler succeeded, its response bytes
/// (ending in a newline) and one flush must be seen before anything else
/// happens; a command, a failed handler or an error produces no output (a flush
/// with nothing pending is not output and is not judged).
pub fn check_unit_order(log: &[Ev], is_query: &dyn Fn(u16) -> bool) -> Result<(), String> {
    #[derive(PartialEq, Debug)]
    enum St {
        Idle,
        /// query handler returned ok; bytes written so far
        Resp(Vec<u8>),
    }
    let mut st = St::Idle;
    for (i, e) in log.iter().enumerate() {
        match e {
            Ev::Exit { h, ok } => {
                if st != St::Idle {
                    return Err(format!("event {}: handler exit while a response was pending", i));
                }
                if *ok && is_query(*h) {
                    st = St::Resp(Vec::new());
                }
            }
            Ev::Write(b) => match &mut st {
                St::Resp(buf) => buf.extend_from_slice(b),
                St::Idle => return Err(format!("event {}: output \"{}\" although no query response is due", i, crate::ev::esc(b))),
            },
            Ev::Flush => match &st {
                St::Resp(buf) => {
                    if buf.last() != Some(&b'\n') {
                        return Err(format!("event {}: flush before the response was terminated by a newline", i));
                    }
                    st = St::Idle;
                }
                // a flush while nothing is pending moves no byte: it is not output
                St::Idle => {}
            },
            Ev::Enter { .. } | Ev::Error { .. } | Ev::Mark(_) | Ev::RunRet { .. } => {
                if let St::Resp(buf) = &st {
                    return Err(format!(
                        "event {} ({}) before the response of the previous query was written and flushed (written so far: \"{}\")",
                        i,
                        e.show(),
                        crate::ev::esc(buf)
                    ));
                }
            }
            _ => {}
        }
    }
    if st != St::Idle {
        return Err("log ends while a response is pending (no newline + flush)".into());
    }
    Ok(())
}

/// One message's expectation with the "all or none of the units after a fault"
/// alternatives: the first entry is "every unit runs"; each further entry stops
/// after one of the faulty units.
#[derive(Clone, Debug)]
pub struct MsgExpect {
    pub alts: Vec<Vec<Expect>>,
}

impl MsgExpect {
    /// `units`: per unit its expected events and whether it is faulty.
    pub fn from_units(units: &[(Vec<Expect>, bool)]) -> MsgExpect {
        let u3: Vec<(Vec<Expect>, Vec<Expect>, bool)> = units.iter().map(|u| (u.0.clone(), u.0.clone(), u.1)).collect();
        MsgExpect::from_units3(&u3)
    }

    /// `units`: per unit (events if execution continues after it, events if the message
    /// stops after it, whether it may stop the message).
    pub fn from_units3(units: &[(Vec<Expect>, Vec<Expect>, bool)]) -> MsgExpect {
        let all: Vec<Expect> = units.iter().flat_map(|u| u.0.iter().cloned()).collect();
        let mut alts = vec![all];
        for (k, u) in units.iter().enumerate() {
            if u.2 && (k + 1 < units.len() || u.0 != u.1) {
                let mut v: Vec<Expect> = units[..k].iter().flat_map(|u| u.0.iter().cloned()).collect();
                v.extend(u.1.iter().cloned());
                alts.push(v);
            }
        }
        MsgExpect { alts }
    }
}

/// Tries the combinations of alternatives (bounded).  Ok(true) = matched with
/// some message stopping after a fault, Ok(false) = matched with every unit run.
pub fn check_alternatives(msgs: &[MsgExpect], got: &Streams) -> Result<bool, String> {
    let mut idx = vec![0usize; msgs.len()];
    let mut first_err = String::new();
    let mut tried = 0u32;
    loop {
        let mut exp: Vec<Expect> = Vec::new();
        for (m, i) in msgs.iter().zip(&idx) {
            exp.extend(m.alts[*i].iter().cloned());
        }
        match check_streams(&exp, got) {
            Ok(()) => return Ok(idx.iter().any(|i| *i != 0)),
            Err(e) => {
                if tried == 0 {
                    first_err = e;
                }
            }
        }
        tried += 1;
        if tried > 50_000 {
            return Err(format!("{} (after {} combinations of all-or-none alternatives)", first_err, tried));
        }
        // next combination
        let mut k = 0;
        loop {
            if k == msgs.len() {
                return Err(first_err);
            }
            idx[k] += 1;
            if idx[k] < msgs[k].alts.len() {
                break;
            }
            idx[k] = 0;
            k += 1;
        }
    }
}
