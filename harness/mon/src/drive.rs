//! Drivers: run one execution of the real library and return its event log.

use std::cell::RefCell;
use std::panic::{catch_unwind, AssertUnwindSafe};
use std::sync::Once;

use crate::alloc;
use crate::ev::{self, Ev};
use crate::exec::{self, block_on};
use crate::io::{RecWriter, ScriptedAdapter};
use microscpi::Interface;

/// A device type the harness can instantiate.
pub trait NewDev: Interface + Sized {
    fn new_dev() -> Self;
}

#[derive(Clone, Copy, Debug, PartialEq, Eq)]
pub enum WriterKind {
    /// recording pass-through writer, optional capacity
    Rec(Option<usize>),
    /// the library's `heapless::Vec<u8, CAP>` writer (CAP from `HEAPLESS_CAPS`)
    Heapless(usize),
    /// the library's `std::vec::Vec<u8>` writer (only with feature `std`)
    Std,
}

pub const HEAPLESS_CAPS: [usize; 12] = [0, 1, 2, 3, 4, 5, 8, 16, 64, 256, 1024, 4096];

pub struct RunSpec<'a> {
    /// one `run` call per element, on the same device instance
    pub inputs: &'a [&'a [u8]],
    pub writer: WriterKind,
    /// 0 = futures never return Pending
    pub pend_seed: u64,
}

pub struct ProcSpec<'a> {
    pub stream: &'a [u8],
    pub n: usize,
    pub chunks: &'a [usize],
    pub pend_seed: u64,
    pub fault_at: Option<usize>,
}

#[derive(Debug, Default, Clone)]
pub struct RunOut {
    pub log: Vec<Ev>,
    /// message + location of a panic that escaped the library call
    pub panic: Option<String>,
    /// the task exceeded its poll budget
    pub stuck: bool,
    /// heap allocations counted inside the library-call windows
    pub allocs: u64,
    pub polls: u64,
    pub pendings: u64,
}

impl RunOut {
    pub fn crashed(&self) -> bool {
        self.panic.is_some() || self.stuck
    }
    /// the panic was raised by the harness (e.g. runaway transport calls)
    pub fn harness_abort(&self) -> bool {
        self.panic.as_deref().map(|p| p.contains(crate::io::HARNESS_ABORT)).unwrap_or(false)
    }
}

thread_local! {
    static LAST_PANIC: RefCell<Option<String>> = const { RefCell::new(None) };
    /// true while the library is being called under catch_unwind
    static IN_CALL: std::cell::Cell<bool> = const { std::cell::Cell::new(false) };
}
static HOOK: Once = Once::new();

pub fn install_panic_hook() {
    HOOK.call_once(|| {
        std::panic::set_hook(Box::new(|info| {
            alloc::exempt(|| {
                let msg = if let Some(s) = info.payload().downcast_ref::<&str>() {
                    s.to_string()
                }
                else if let Some(s) = info.payload().downcast_ref::<String>() {
                    s.clone()
                }
                else {
                    "<non-string panic payload>".to_string()
                };
                let loc = info.location().map(|l| format!("{}:{}:{}", l.file(), l.line(), l.column())).unwrap_or_default();
                if !IN_CALL.with(|c| c.get()) {
                    eprintln!("HARNESS-PANIC (outside a monitored library call): {} @ {}", msg, loc);
                }
                LAST_PANIC.with(|p| *p.borrow_mut() = Some(format!("{} @ {}", msg, loc)));
            })
        }));
    });
}

fn take_panic() -> String {
    LAST_PANIC.with(|p| p.borrow_mut().take()).unwrap_or_else(|| "<panic without message>".into())
}

fn poll_budget(bytes: usize) -> u64 {
    // every suspension point returns Pending at most twice; the number of
    // suspension points is bounded by a small multiple of the bytes handled.
    200_000 + 4_000 * bytes as u64
}

fn is_suffix(input: &[u8], rest: &[u8]) -> bool {
    if rest.is_empty() {
        return true;
    }
    let ip = input.as_ptr() as usize;
    let rp = rest.as_ptr() as usize;
    rp >= ip && rp + rest.len() == ip + input.len()
}

fn wrap(total_bytes: usize, pend_seed: u64, f: impl FnOnce(u64) -> bool) -> RunOut {
    install_panic_hook();
    let _ = ev::take();
    exec::set_pending_plan(pend_seed);
    alloc::window_reset();
    let (a0, _) = alloc::counted();
    let p0 = exec::polls();
    let q0 = exec::pendings();
    let budget = poll_budget(total_bytes);
    IN_CALL.with(|c| c.set(true));
    let r = catch_unwind(AssertUnwindSafe(|| f(budget)));
    IN_CALL.with(|c| c.set(false));
    alloc::window_reset();
    let (a1, _) = alloc::counted();
    exec::set_pending_plan(0);
    let mut out = RunOut { allocs: a1 - a0, polls: exec::polls() - p0, pendings: exec::pendings() - q0, ..Default::default() };
    match r {
        Ok(stuck) => out.stuck = stuck,
        Err(_) => out.panic = Some(take_panic()),
    }
    if ev::take_invalid_utf8() && out.panic.is_none() {
        out.panic = Some("a handler received a &str argument that is not valid UTF-8 @ handler boundary".to_string());
    }
    out.log = ev::take();
    out
}

async fn run_one<D: Interface, W: microscpi::Write>(dev: &mut D, input: &[u8], w: &mut W) -> (usize, bool) {
    alloc::window_open();
    let rest = dev.run(input, w).await;
    alloc::window_close();
    (rest.len(), is_suffix(input, rest))
}

macro_rules! heapless_caps {
    ($cap:expr, $dev:expr, $spec:expr, $budget:expr, [$($c:literal),*]) => {
        match $cap {
            $( $c => {
                let mut w: heapless::Vec<u8, $c> = heapless::Vec::new();
                let mut stuck = false;
                for (i, input) in $spec.inputs.iter().enumerate() {
                    ev::push(Ev::Mark(i as u32));
                    match block_on(run_one($dev, input, &mut w), $budget) {
                        Ok((rest, suffix)) => ev::push(Ev::RunRet { given: input.len(), rest, suffix }),
                        Err(_) => { stuck = true; break; }
                    }
                    ev::push_with(|| Ev::Out(w.to_vec()));
                    w.clear();
                }
                stuck
            } )*
            other => panic!("{}: heapless capacity {} not instantiated", crate::io::HARNESS_ABORT, other),
        }
    };
}

/// Runs `spec.inputs` through `Interface::run`, one call per input, on a fresh device.
pub fn drive_run<D: NewDev>(spec: &RunSpec) -> RunOut {
    let total: usize = spec.inputs.iter().map(|i| i.len()).sum();
    wrap(total, spec.pend_seed, |budget| {
        let mut dev = alloc::exempt(|| D::new_dev());
        let dev = &mut dev;
        match spec.writer {
            WriterKind::Rec(cap) => {
                let mut w = RecWriter::new(cap);
                for (i, input) in spec.inputs.iter().enumerate() {
                    ev::push(Ev::Mark(i as u32));
                    match block_on(run_one(dev, input, &mut w), budget) {
                        Ok((rest, suffix)) => ev::push(Ev::RunRet { given: input.len(), rest, suffix }),
                        Err(_) => return true,
                    }
                }
                false
            }
            WriterKind::Heapless(cap) => {
                heapless_caps!(cap, dev, spec, budget, [0, 1, 2, 3, 4, 5, 8, 16, 64, 256, 1024, 4096])
            }
            WriterKind::Std => drive_std(dev, spec, budget),
        }
    })
}

#[cfg(feature = "std")]
fn drive_std<D: Interface>(dev: &mut D, spec: &RunSpec, budget: u64) -> bool {
    let mut w: Vec<u8> = Vec::new();
    for (i, input) in spec.inputs.iter().enumerate() {
        ev::push(Ev::Mark(i as u32));
        match block_on(run_one(dev, input, &mut w), budget) {
            Ok((rest, suffix)) => ev::push(Ev::RunRet { given: input.len(), rest, suffix }),
            Err(_) => return true,
        }
        ev::push_with(|| Ev::Out(w.clone()));
        w.clear();
    }
    false
}

#[cfg(not(feature = "std"))]
fn drive_std<D: Interface>(_dev: &mut D, _spec: &RunSpec, _budget: u64) -> bool {
    panic!("{}: built without feature std", crate::io::HARNESS_ABORT)
}

pub fn process_n<D: NewDev, const N: usize>(spec: &ProcSpec) -> RunOut {
    wrap(spec.stream.len() * 4 + 64, spec.pend_seed, |budget| {
        let mut dev = alloc::exempt(|| D::new_dev());
        let mut ad = ScriptedAdapter::new(spec.stream, spec.chunks, spec.fault_at);
        let fut = async {
            alloc::window_open();
            let r = dev.process::<N, _>(&mut ad).await;
            alloc::window_close();
            r
        };
        match block_on(fut, budget) {
            Ok(r) => {
                ev::push(Ev::ProcRet { ok: r.is_ok(), token: r.err().unwrap_or(0) });
                false
            }
            Err(_) => true,
        }
    })
}

/// N values available for every interface.
pub const N_SMALL: [usize; 8] = [4, 8, 16, 24, 32, 64, 256, 1024];

pub fn drive_process_small<D: NewDev>(spec: &ProcSpec) -> RunOut {
    match spec.n {
        4 => process_n::<D, 4>(spec),
        8 => process_n::<D, 8>(spec),
        16 => process_n::<D, 16>(spec),
        24 => process_n::<D, 24>(spec),
        32 => process_n::<D, 32>(spec),
        64 => process_n::<D, 64>(spec),
        256 => process_n::<D, 256>(spec),
        1024 => process_n::<D, 1024>(spec),
        other => panic!("{}: N={} not instantiated (small set)", crate::io::HARNESS_ABORT, other),
    }
}

macro_rules! full_n {
    ($spec:expr, $d:ty, [$($n:literal),*]) => {
        match $spec.n {
            $( $n => process_n::<$d, $n>($spec), )*
            other => panic!("{}: N={} not instantiated (full set)", crate::io::HARNESS_ABORT, other),
        }
    };
}

/// N values available for the compact interfaces: every N in 1..=64 and some larger ones.
pub fn n_full() -> Vec<usize> {
    let mut v: Vec<usize> = (1..=64).collect();
    v.extend_from_slice(&[100, 255, 256, 1000, 4096]);
    v
}

pub fn drive_process_full<D: NewDev>(spec: &ProcSpec) -> RunOut {
    full_n!(spec, D, [
        1, 2, 3, 4, 5, 6, 7, 8, 9, 10, 11, 12, 13, 14, 15, 16, 17, 18, 19, 20, 21, 22, 23, 24, 25, 26, 27, 28,
        29, 30, 31, 32, 33, 34, 35, 36, 37, 38, 39, 40, 41, 42, 43, 44, 45, 46, 47, 48, 49, 50, 51, 52, 53, 54,
        55, 56, 57, 58, 59, 60, 61, 62, 63, 64, 100, 255, 256, 1000, 4096
    ])
}

/// Description of one handler declaration, as data (the same string that is
/// handed to the macro).
#[derive(Debug, Clone, Copy)]
pub struct DeclDesc {
    pub cmd: &'static str,
    pub params: &'static [ev::Ty],
    pub ret: ev::RetTy,
    pub is_async: bool,
    pub fails: Option<ev::Fail>,
}

/// One interface under test: its declarations and monomorphic drivers.
#[derive(Clone, Copy)]
pub struct IfaceDesc {
    pub name: &'static str,
    pub decls: &'static [DeclDesc],
    pub std_cmds: bool,
    pub err_cmds: bool,
    /// capacity of the error queue (meaningful with err_cmds)
    pub queue_cap: usize,
    /// root node of the generated command tree
    pub root: fn() -> &'static microscpi::Node,
    pub run: fn(&RunSpec) -> RunOut,
    pub process: fn(&ProcSpec) -> RunOut,
    /// N values `process` accepts
    pub ns: fn() -> Vec<usize>,
}

pub fn root_of<D: NewDev>() -> &'static microscpi::Node {
    D::new_dev().root_node()
}

pub fn ns_small() -> Vec<usize> {
    N_SMALL.to_vec()
}
