//! Runtime-monitoring harness for microscpi: recorders, drivers, spec model,
//! workload generators and the per-property monitors.

pub mod alloc;
pub mod devq;
pub mod drive;
pub mod ev;
pub mod exec;
pub mod fuzzapi;
pub mod genr;
pub mod io;
pub mod out;
pub mod par;
pub mod prng;
#[cfg(feature = "zoo")]
pub mod rzoo;
pub mod props;
pub mod sem;
pub mod spec;
pub mod wl;

pub use drive::{DeclDesc, IfaceDesc, NewDev, ProcSpec, RunOut, RunSpec, WriterKind};
pub use ev::{Arg, Ev, Fail, RetTy, Ty};
pub use microscpi;
