//! C13, build half: a freestanding binary - `#![no_std]`, `#![no_main]`, NO
//! `#[global_allocator]`, panic = abort - that links microscpi with its default
//! features and drives `run` and `process::<N>` into heapless buffers.  If the
//! library (or anything it pulls in) needed `alloc` or `std`, this would not
//! build ("no global memory allocator found").
#![no_std]
#![no_main]

use core::future::Future;
use core::pin::pin;
use core::task::{Context, Poll, RawWaker, RawWakerVTable, Waker};

use microscpi::{Adapter, Error, ErrorCommands, ErrorQueue, Interface, StandardCommands, StaticErrorQueue};

#[link(name = "c")]
extern "C" {
    fn write(fd: i32, buf: *const u8, n: usize) -> isize;
    fn _exit(code: i32) -> !;
}

#[panic_handler]
fn panic(_: &core::panic::PanicInfo) -> ! {
    let m = b"PANIC in nostd probe\n";
    unsafe {
        write(2, m.as_ptr(), m.len());
        _exit(101)
    }
}

#[no_mangle]
pub extern "C" fn rust_eh_personality() {}
#[no_mangle]
pub extern "C" fn _Unwind_Resume() {}

fn out(b: &[u8]) {
    unsafe {
        write(1, b.as_ptr(), b.len());
    }
}

fn raw() -> RawWaker {
    fn no(_: *const ()) {}
    fn clone(_: *const ()) -> RawWaker {
        raw()
    }
    static VT: RawWakerVTable = RawWakerVTable::new(clone, no, no, no);
    RawWaker::new(core::ptr::null(), &VT)
}

fn block_on<F: Future>(f: F) -> F::Output {
    let w = unsafe { Waker::from_raw(raw()) };
    let mut cx = Context::from_waker(&w);
    let mut f = pin!(f);
    loop {
        if let Poll::Ready(v) = f.as_mut().poll(&mut cx) {
            return v;
        }
    }
}

pub struct Dev {
    q: StaticErrorQueue<4>,
    v: u32,
    sum: u32,
}

impl ErrorCommands for Dev {
    fn error_queue(&mut self) -> &mut impl ErrorQueue {
        &mut self.q
    }
}
impl StandardCommands for Dev {}

#[microscpi::interface(StandardCommands, ErrorCommands)]
impl Dev {
    #[scpi(cmd = "VALue?")]
    async fn value(&mut self) -> Result<u32, Error> {
        Ok(self.v)
    }
    #[scpi(cmd = "VALue")]
    fn set_value(&mut self, v: u32) -> Result<(), Error> {
        self.v = v;
        Ok(())
    }
    #[scpi(cmd = "NAMe?")]
    fn name(&mut self) -> Result<&str, Error> {
        Ok("no \"std\" here")
    }
    #[scpi(cmd = "DATA:BLock")]
    async fn block(&mut self, data: &[u8]) -> Result<(), Error> {
        self.sum = data.iter().map(|b| *b as u32).sum();
        Ok(())
    }
    #[scpi(cmd = "DATA:SUM?")]
    fn sum(&mut self) -> Result<(u32, f64, bool), Error> {
        Ok((self.sum, self.sum as f64 / 4.0, self.sum > 0))
    }
}

struct Stream {
    data: &'static [u8],
    pos: usize,
    chunk: usize,
    out: heapless::Vec<u8, 256>,
}

impl Adapter for Stream {
    type Error = ();
    async fn read(&mut self, dst: &mut [u8]) -> Result<usize, ()> {
        if self.pos >= self.data.len() {
            return Err(());
        }
        let n = self.chunk.min(dst.len()).min(self.data.len() - self.pos);
        dst[..n].copy_from_slice(&self.data[self.pos..self.pos + n]);
        self.pos += n;
        Ok(n)
    }
    async fn write(&mut self, src: &[u8]) -> Result<(), ()> {
        self.out.extend_from_slice(src).map_err(|_| ())
    }
    async fn flush(&mut self) -> Result<(), ()> {
        Ok(())
    }
}

const INPUT: &[u8] = b"VAL 42;VAL?\nNAME?\nDATA:BL #13abc;SUM?\nNOPE\nSYST:ERR?;:SYST:VERS?\nval #HFF;:value?\n";
const EXPECT: &[u8] = b"42\n\"no \"\"std\"\" here\"\n294,73.5,1\n-113,\"Undefined header\"\n1999.0\n255\n";

#[no_mangle]
pub extern "C" fn main() -> i32 {
    // run into a heapless buffer
    let mut dev = Dev { q: StaticErrorQueue::new(), v: 0, sum: 0 };
    let mut resp: heapless::Vec<u8, 256> = heapless::Vec::new();
    let rest = block_on(dev.run(INPUT, &mut resp));
    let ok_run = rest.is_empty() && resp.as_slice() == EXPECT;
    // process::<N> for two buffer sizes and two chunkings
    let mut ok_proc = true;
    for chunk in [1usize, 7] {
        let mut dev = Dev { q: StaticErrorQueue::new(), v: 0, sum: 0 };
        let mut s = Stream { data: INPUT, pos: 0, chunk, out: heapless::Vec::new() };
        let r = block_on(dev.process::<48, _>(&mut s));
        ok_proc &= r.is_err() && s.out.as_slice() == EXPECT;
        let mut dev = Dev { q: StaticErrorQueue::new(), v: 0, sum: 0 };
        let mut s = Stream { data: INPUT, pos: 0, chunk, out: heapless::Vec::new() };
        let r = block_on(dev.process::<200, _>(&mut s));
        ok_proc &= r.is_err() && s.out.as_slice() == EXPECT;
    }
    if ok_run && ok_proc {
        out(b"NOSTD-PROBE-OK run and process::<48>/<200> answered as expected without std and without an allocator\n");
        0
    }
    else {
        out(b"NOSTD-PROBE-MISMATCH run output: ");
        out(resp.as_slice());
        out(b"\n");
        3
    }
}
