"""Per-property driver configuration for ./check."""

CONFIG = {
    "C05": {"profiles": ["release", "chk"], "timeout_s": {"quick": 900, "thorough": 7200}},
    "C06": {"timeout_s": {"quick": 900, "thorough": 7200}},
    "C07": {"timeout_s": {"quick": 900, "thorough": 7200}},
    "C08": {"timeout_s": {"quick": 900, "thorough": 7200}},
    "C12": {"timeout_s": {"quick": 900, "thorough": 7200}},
}
