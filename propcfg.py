"""Per-property driver configuration for ./check."""

CONFIG = {
    "C01": {"timeout_s": {"quick": 900, "thorough": 7200}},
    "C02": {"timeout_s": {"quick": 900, "thorough": 7200}},
    "C03": {"floatlog": True, "timeout_s": {"quick": 900, "thorough": 7200}},
    "C04": {"features": "std,zoo", "floatlog": True, "timeout_s": {"quick": 900, "thorough": 14400}},
    "C05": {"profiles": ["release", "chk"], "sanitizers": True, "fuzz": True, "timeout_s": {"quick": 900, "thorough": 7200}},
    "C06": {"timeout_s": {"quick": 900, "thorough": 7200}},
    "C07": {"fuzz": True, "timeout_s": {"quick": 900, "thorough": 7200}},
    "C08": {"timeout_s": {"quick": 900, "thorough": 7200}},
    "C09": {"timeout_s": {"quick": 900, "thorough": 7200}},
    "C10": {"timeout_s": {"quick": 900, "thorough": 7200}},
    "C11": {"timeout_s": {"quick": 900, "thorough": 7200}},
    "C12": {"fuzz": True, "timeout_s": {"quick": 900, "thorough": 7200}},
    "C13": {"nostd": True, "timeout_s": {"quick": 900, "thorough": 7200}},
    "C14": {"external": "c14"},
}
