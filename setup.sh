#!/bin/sh
# Build the framework from files on disk only (offline).  Safe to re-run.
set -e
cd "$(dirname "$0")"
export CARGO_NET_OFFLINE=true
H=harness
[ -f $H/Cargo.lock ] || cp /repo/Cargo.lock $H/Cargo.lock
[ -f $H/runner/Cargo.lock ] || cp /repo/Cargo.lock $H/runner/Cargo.lock
[ -f nostd/Cargo.lock ] || cp /repo/Cargo.lock nostd/Cargo.lock
(cd $H && cargo build --release --offline -p mon --bin gen 2>&1 | tail -1)
$H/target/release/gen --out $H/g --seed "${VERIF_SEED:-1}" --tier quick --repo /repo --mon "$(pwd)/$H/mon" >/dev/null
(cd $H/runner && cargo build --offline --profile release 2>&1 | tail -1)
(cd $H/runner && cargo build --offline --profile chk 2>&1 | tail -1)
(cd $H/runner && CARGO_TARGET_DIR="$(pwd)/../target-std,zoo" cargo build --offline --profile release --features std,zoo 2>&1 | tail -1)
(cd nostd && cargo build --release --offline 2>&1 | tail -1)
echo "setup done"
