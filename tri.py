#!/usr/bin/env python3
# triage helper: compact view of a runner result file
import json,sys,collections
r=json.load(open(sys.argv[1]))
n=int(sys.argv[2]) if len(sys.argv)>2 else 6
print('violation_count',r['violation_count'],'evals',r['evaluations'],'distinct',r['distinct'],'inconcl',r['inconclusive'],'skipped',r['skipped_crash'])
print(collections.Counter(v['sig'] for v in r['violations']))
seen=set()
for v in r['violations']:
    if v['sig'] in seen: continue
    seen.add(v['sig'])
    if len(seen)>n: break
    print('---',v['sig']); print('  ',v['summary'][:400])
    w=v['witness']
    for k in w:
        if k.endswith('_hex') or k=='decls': continue
        print('    ',k,':',json.dumps(w[k])[:600])
