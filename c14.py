"""C14 - ambiguous command sets are rejected at compile time, never shadowed.

The code under test is the proc-macro; its execution is rustc expanding it.
Observed at its boundary: the JSON diagnostics of `cargo check` on a crate in
which every module holds one declaration set the spec model calls ambiguous
(each in its own file, so every diagnostic maps to a module), and on a crate
with a minimally different collision-free twin of every set.

Refuted by: an ambiguous module without any error (witness: the two
declarations and the shared header), or a twin that does not compile.
"""
import json
import os
import shutil
import subprocess
import time

VERIF = os.path.dirname(os.path.abspath(__file__))


def cargo_check(crate_dir, target_dir, env):
    p = subprocess.run(["cargo", "check", "--offline", "--message-format=json", "--quiet"], cwd=crate_dir,
                       env=dict(env, CARGO_TARGET_DIR=target_dir), stdout=subprocess.PIPE, stderr=subprocess.PIPE, text=True, errors="replace")
    per_module = {}
    other = []
    for line in p.stdout.splitlines():
        try:
            m = json.loads(line)
        except ValueError:
            continue
        if m.get("reason") != "compiler-message":
            continue
        d = m["message"]
        if d.get("level") != "error":
            continue
        files = [s["file_name"] for s in d.get("spans", [])]
        text = d.get("message", "")
        for c in d.get("children", []):
            text += " | " + c.get("message", "")
        mods = set()
        for f in files:
            b = os.path.basename(f)
            if b.startswith("m") and b.endswith(".rs") and crate_dir in os.path.abspath(os.path.join(crate_dir, f)):
                mods.add(b[:-3])
        if mods:
            for mo in mods:
                per_module.setdefault(mo, []).append(text)
        elif "aborting due to" not in text and "could not compile" not in text:
            other.append(text)
    return p.returncode, per_module, other, p.stderr[-2000:]


def main(prop, tier, seed, repo, evidence_path, log, drv):
    t0 = time.time()
    hd = drv.harness_dir()
    env = dict(drv.ENV)

    def inconclusive(reason):
        log("INCONCLUSIVE property=%s %s" % (prop, reason.replace("\n", " | ")[:1500]))
        return 2

    rc, out, _ = drv.sh(["cargo", "build", "--release", "--offline", "-p", "mon", "--bin", "gen"], hd)
    if rc != 0:
        return inconclusive("building the generator failed: " + out[-1500:])
    work = os.path.join(hd, "target", "c14-%s-%d" % (tier, os.getpid()))
    shutil.rmtree(work, ignore_errors=True)
    os.makedirs(work)
    try:
        rc, out, _ = drv.sh([os.path.join(hd, "target/release/gen"), "--c14", work, "--tier", tier, "--seed", str(seed),
                             "--repo", os.path.realpath(repo)], hd)
        if rc != 0:
            return inconclusive("generating the sets failed: " + out[-1500:])
        sets = json.load(open(os.path.join(work, "sets.json")))
        for c in ("amb", "twin"):
            shutil.copy(os.path.join(repo, "Cargo.lock"), os.path.join(work, c, "Cargo.lock"))
        tdir = os.path.join(hd, "target", "c14-target")
        rc_a, amb_errs, amb_other, amb_stderr = cargo_check(os.path.join(work, "amb"), tdir, env)
        rc_t, twin_errs, twin_other, twin_stderr = cargo_check(os.path.join(work, "twin"), tdir, env)

        # canary: the observation channel must be live - the ambiguous crate must have failed to
        # build and at least one diagnostic must name the macro's collision error
        all_amb_text = " ".join(t for v in amb_errs.values() for t in v)
        if rc_a == 0 and not amb_errs:
            pass  # every ambiguous set was accepted: reported per module below
        if amb_other or twin_other:
            return inconclusive("diagnostics that belong to no module: %s" % (amb_other + twin_other)[:3])
        if rc_t != 0 and not twin_errs:
            return inconclusive("the twin crate failed to build without a module diagnostic: " + twin_stderr[-800:])

        violations = []
        by_class = {}
        kinds = {}
        for s in sets:
            mo = s["module"]
            by_class.setdefault(s["class"], [0, 0])
            by_class[s["class"]][0] += 1
            if mo not in amb_errs:
                violations.append({
                    "sig": "ambiguous-set-accepted/%s" % s["class"].split("/")[0],
                    "summary": "the declaration set %s (%s) compiles although %s" % (s["ambiguous"], s["ambiguous_attrs"], s["shared_spelling"]),
                    "witness": s,
                })
            else:
                by_class[s["class"]][1] += 1
                txt = " ".join(amb_errs[mo])
                k = "CommandExists" if "CommandExists" in txt else ("QueryExists" if "QueryExists" in txt else "other")
                kinds[k] = kinds.get(k, 0) + 1
            if mo in twin_errs:
                violations.append({
                    "sig": "collision-free-set-rejected/%s" % s["class"].split("/")[0],
                    "summary": "the collision-free set %s (%s) does not compile: %s" % (s["twin"], s["twin_attrs"], twin_errs[mo][0][:300]),
                    "witness": dict(s, diagnostics=twin_errs[mo][:3]),
                })
        n = len(sets)
        rejected = sum(1 for s in sets if s["module"] in amb_errs)
        cov = {
            "evaluations": 2 * n,
            "distinct_nontrivial": 2 * n,
            "rule": "%d pairs (ambiguous set, collision-free twin): 28 hand-written collision classes (identical, short=long, case only, optional leading/trailing/middle, both optional, deep prefix, against the attribute's standard commands, command-vs-command, query-vs-query) + random sets derived from generated collision-free interfaces by adding a declaration that shares one spelling (same spelling, extra optional node in front / before the last node, longer long form); every set is one module compiled through the real macro; distinct = modules compiled" % n,
            "samples": sets[:2] + sets[-1:],
            "programs": 2 * n,
            "ambiguous_sets": n,
            "ambiguous_sets_rejected_by_the_macro": rejected,
            "twins_compiled": n - sum(1 for s in sets if s["module"] in twin_errs),
            "pairs_by_class": {k: {"pairs": v[0], "ambiguous_rejected": v[1]} for k, v in sorted(by_class.items())},
            "macro_error_kinds": kinds,
            "cargo_check_exit": {"ambiguous_crate": rc_a, "twin_crate": rc_t},
        }
        known = [k for k in drv.load_known() if k.get("property") == prop and k.get("status") == "known"]
        new = [v for v in violations if not any(k["signature"] == v["sig"] for k in known)]
        for k in known:
            if any(v["sig"] == k["signature"] for v in violations):
                log("KNOWN-FINDING: property=%s %s (%s)" % (prop, k.get("what", ""), k["signature"]))
        verdict_inconclusive = None
        if rejected == 0 and n > 0 and not new:
            verdict_inconclusive = "no ambiguous module produced a diagnostic"
        ev = {
            "property_id": prop, "tier": tier, "seed": seed, "level": "exploration", "coverage": cov,
            "assumptions": ["a set is ambiguous iff two of its declarations (incl. the requested standard commands) of the same kind share a spelling, computed by the independent header model",
                            "declarations that collide with themselves ([A]:[A]:X) are not generated"],
            "wall_s": round(time.time() - t0, 2), "violations": len(new), "repo": repo,
            "verdict": "violated" if new else "held on what was observed",
        }
        json.dump(ev, open(evidence_path, "w"), indent=1)
        if new:
            seen = set()
            i = 0
            for v in new:
                if v["sig"] in seen:
                    continue
                seen.add(v["sig"])
                i += 1
                rp = os.path.join(VERIF, "replays", "%s-%s-%d.json" % (prop, tier, i))
                json.dump(dict(v, property=prop, seed=seed, tier=tier), open(rp, "w"), indent=1)
                log("VIOLATION property=%s replay=%s" % (prop, rp))
                log("  signature: %s" % v["sig"])
                log("  %s" % v["summary"][:500])
            log("%s: %d of %d modules misjudged by the macro" % (prop, len(new), 2 * n))
            return 1
        if verdict_inconclusive:
            return inconclusive(verdict_inconclusive)
        log("%s held on %d ambiguous sets (all rejected at compile time: %s) and %d twins (all compile), tier=%s seed=%d, %.1fs" %
            (prop, n, kinds, n, tier, seed, time.time() - t0))
        return 0
    finally:
        shutil.rmtree(work, ignore_errors=True)
